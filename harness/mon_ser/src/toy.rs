//! Oracle-side model of the toy curves (plain u64 arithmetic from `cfgs::toy_curves::TOY_CURVES`):
//! all affine points by brute force over (x, y), the prime-order subgroup as the multiples of the
//! generator under the textbook group law.
use cfgs::toy_curves::ToyMeta;
use std::collections::BTreeSet;

/// element of F_p or F_p[u]/(u^2 - beta) as (c0, c1)
pub type E = [u64; 2];

#[derive(Clone)]
pub struct Toy {
    pub meta: ToyMeta,
    pub sw: bool,
    pub p: u64,
    pub deg: usize,
    /// all affine points (SW: without infinity)
    pub points: Vec<(E, E)>,
    /// points of the prime-order subgroup (SW: without infinity, which is a member too)
    pub subgroup: BTreeSet<(E, E)>,
}

fn pw(mut b: u64, mut e: u64, p: u64) -> u64 {
    let mut r = 1;
    b %= p;
    while e > 0 {
        if e & 1 == 1 {
            r = r * b % p;
        }
        b = b * b % p;
        e >>= 1;
    }
    r
}

impl Toy {
    pub fn add(&self, a: E, b: E) -> E {
        [(a[0] + b[0]) % self.p, (a[1] + b[1]) % self.p]
    }
    pub fn sub(&self, a: E, b: E) -> E {
        [(a[0] + self.p - b[0]) % self.p, (a[1] + self.p - b[1]) % self.p]
    }
    pub fn neg(&self, a: E) -> E {
        self.sub([0, 0], a)
    }
    pub fn mul(&self, a: E, b: E) -> E {
        let p = self.p;
        if self.deg == 1 {
            [a[0] * b[0] % p, 0]
        } else {
            let beta = self.meta.beta;
            [(a[0] * b[0] + beta * (a[1] * b[1] % p)) % p, (a[0] * b[1] + a[1] * b[0]) % p]
        }
    }
    pub fn inv(&self, a: E) -> Option<E> {
        let p = self.p;
        if a == [0, 0] {
            return None;
        }
        if self.deg == 1 {
            Some([pw(a[0], p - 2, p), 0])
        } else {
            // 1/(c0 + c1 u) = (c0 - c1 u)/(c0^2 - beta c1^2)
            let n = (a[0] * a[0] % p + p - self.meta.beta * (a[1] * a[1] % p) % p) % p;
            let ni = pw(n, p - 2, p);
            Some([a[0] * ni % p, (p - a[1]) % p * ni % p])
        }
    }
    pub fn one(&self) -> E {
        [1, 0]
    }
    fn elems(&self) -> Vec<E> {
        let mut v = vec![];
        if self.deg == 1 {
            for a in 0..self.p {
                v.push([a, 0]);
            }
        } else {
            for b in 0..self.p {
                for a in 0..self.p {
                    v.push([a, b]);
                }
            }
        }
        v
    }
    pub fn on_curve(&self, x: E, y: E) -> bool {
        let (c1, c2) = (self.meta.coeff1, self.meta.coeff2);
        if self.sw {
            // y^2 = x^3 + a x + b
            let rhs = self.add(self.add(self.mul(self.mul(x, x), x), self.mul(c1, x)), c2);
            self.mul(y, y) == rhs
        } else {
            // a x^2 + y^2 = 1 + d x^2 y^2
            let (x2, y2) = (self.mul(x, x), self.mul(y, y));
            self.add(self.mul(c1, x2), y2) == self.add(self.one(), self.mul(c2, self.mul(x2, y2)))
        }
    }
    /// textbook group law; SW identity = None, TE identity = (0, 1)
    pub fn padd(&self, p: Option<(E, E)>, q: Option<(E, E)>) -> Option<(E, E)> {
        if self.sw {
            let (Some((x1, y1)), Some((x2, y2))) = (p, q) else { return p.or(q) };
            let l = if x1 == x2 {
                if self.add(y1, y2) == [0, 0] {
                    return None;
                }
                let three_x2 = self.mul([3 % self.p, 0], self.mul(x1, x1));
                self.mul(self.add(three_x2, self.meta.coeff1), self.inv(self.add(y1, y1)).unwrap())
            } else {
                self.mul(self.sub(y2, y1), self.inv(self.sub(x2, x1)).unwrap())
            };
            let x3 = self.sub(self.sub(self.mul(l, l), x1), x2);
            let y3 = self.sub(self.mul(l, self.sub(x1, x3)), y1);
            Some((x3, y3))
        } else {
            let ((x1, y1), (x2, y2)) = (p.unwrap(), q.unwrap());
            let (a, d) = (self.meta.coeff1, self.meta.coeff2);
            let t = self.mul(d, self.mul(self.mul(x1, x2), self.mul(y1, y2)));
            let x3 = self.mul(self.add(self.mul(x1, y2), self.mul(y1, x2)), self.inv(self.add(self.one(), t)).expect("TE denominator"));
            let y3 = self.mul(self.sub(self.mul(y1, y2), self.mul(a, self.mul(x1, x2))), self.inv(self.sub(self.one(), t)).expect("TE denominator"));
            Some((x3, y3))
        }
    }

    pub fn new(meta: &ToyMeta) -> Toy {
        let mut t = Toy { meta: meta.clone(), sw: meta.model == "sw", p: meta.p, deg: meta.ext_degree, points: vec![], subgroup: BTreeSet::new() };
        let el = t.elems();
        for &x in &el {
            for &y in &el {
                if t.on_curve(x, y) {
                    t.points.push((x, y));
                }
            }
        }
        // SW: the point at infinity is not affine; TE with an incomplete law: the points at infinity of the
        // projective closure are not affine either (te_inc: 2 of its 44 points)
        if t.sw {
            assert_eq!(t.points.len() as u64, meta.order - 1, "toy curve {}: point count", meta.name);
        } else {
            assert!(t.points.len() as u64 <= meta.order && t.points.len() as u64 + 4 >= meta.order, "toy curve {}: point count", meta.name);
        }
        let g = Some((meta.gen_x, meta.gen_y));
        let id = if t.sw { None } else { Some(([0, 0], [1, 0])) };
        let mut acc = id;
        for k in 1..=meta.r {
            acc = t.padd(acc, g);
            if k < meta.r {
                assert_ne!(acc, id, "toy curve {}: generator order", meta.name);
            }
            if let Some(pt) = acc {
                t.subgroup.insert(pt);
            }
        }
        assert_eq!(acc, id, "toy curve {}: r * G != 0", meta.name);
        t
    }
    pub fn in_subgroup(&self, pt: &Option<(E, E)>) -> bool {
        match pt {
            None => self.sw,
            Some(p) => self.subgroup.contains(p),
        }
    }
}

pub fn e_to_flat(e: E, deg: usize) -> Vec<oracle::UInt> {
    (0..deg).map(|i| oracle::u(e[i])).collect()
}
