//! Typed value universe of C18: every supported composite type implements `Tv`, which supplies a
//! recursive value generator and an *independent* expected encoding (LE integers, u64 length
//! prefixes, bool byte, option tag, usize as u64, sequential tuples/arrays/struct fields) together
//! with structure marks (where the length prefixes, bool bytes and UTF-8 payloads sit) that the
//! malformed-input generator uses.
use ark_ec::{AffineRepr, CurveGroup};
use ark_ff::{BigInt, PrimeField};
use ark_serialize::{
    CanonicalDeserialize, CanonicalSerialize, Compress, CompressedChecked, CompressedUnchecked, UncompressedChecked,
    UncompressedUnchecked,
};
use ark_std::rand::RngCore;
use monitor::Rng;
use num_bigint::BigUint;
use std::borrow::Cow;
use std::collections::{BTreeMap, BTreeSet, LinkedList, VecDeque};
use std::marker::PhantomData;
use std::sync::Arc;

#[derive(Clone, Debug)]
pub enum MarkKind {
    Len { container: &'static str, n: u64, elem_min: usize },
    Bool,
    Utf8 { len: usize },
}
#[derive(Clone, Debug)]
pub struct Mark {
    pub pos: usize,
    pub kind: MarkKind,
    pub depth: usize,
}
#[derive(Clone, Debug)]
pub struct Node {
    pub start: usize,
    pub end: usize,
    pub kind: &'static str,
    pub depth: usize,
}

#[derive(Default)]
pub struct Enc {
    pub bytes: Vec<u8>,
    pub marks: Vec<Mark>,
    pub nodes: Vec<Node>,
    /// (kind, reported by serialized_size, bytes of the independent encoding) for the innermost nodes that disagree
    pub size_mismatch: Vec<(&'static str, usize, usize)>,
    pub depth: usize,
    pub max_depth: usize,
    /// a VecDeque inside the value has a wrapped ring buffer (`as_slices().1` non-empty)
    pub wrapped_deque: bool,
}

impl Enc {
    pub fn new() -> Self {
        Self::default()
    }
    fn begin(&mut self) -> (usize, usize) {
        self.depth += 1;
        self.max_depth = self.max_depth.max(self.depth);
        (self.bytes.len(), self.size_mismatch.len())
    }
    fn end(&mut self, st: (usize, usize), kind: &'static str, reported: usize) {
        self.depth -= 1;
        let actual = self.bytes.len() - st.0;
        if reported != actual && self.size_mismatch.len() == st.1 {
            self.size_mismatch.push((kind, reported, actual));
        }
        self.nodes.push(Node { start: st.0, end: self.bytes.len(), kind, depth: self.depth });
    }
    fn len_prefix(&mut self, container: &'static str, n: usize, elem_min: usize) {
        self.marks.push(Mark { pos: self.bytes.len(), kind: MarkKind::Len { container, n: n as u64, elem_min }, depth: self.depth });
        self.bytes.extend_from_slice(&(n as u64).to_le_bytes());
    }
    fn bool_byte(&mut self, b: bool) {
        self.marks.push(Mark { pos: self.bytes.len(), kind: MarkKind::Bool, depth: self.depth });
        self.bytes.push(if b { 1 } else { 0 });
    }
    /// innermost node containing byte offset `off`
    pub fn node_at(&self, off: usize) -> Option<&Node> {
        self.nodes.iter().filter(|n| n.start <= off && off < n.end.max(n.start + 1)).min_by_key(|n| (n.end - n.start, usize::MAX - n.depth))
    }
}

pub struct G<'a> {
    pub rng: &'a mut Rng,
    pub depth: usize,
    /// allow the large lengths (255, 256, 1000) at the outermost container
    pub big: bool,
}

impl G<'_> {
    pub fn u32(&mut self) -> u32 {
        self.rng.next_u32()
    }
    pub fn u64(&mut self) -> u64 {
        self.rng.next_u64()
    }
    pub fn len(&mut self) -> usize {
        let r = self.u32();
        if self.depth == 0 {
            if self.big {
                [0, 1, 2, 3, 255, 256, 1000, 2, 1, 0, 7, 64][(r % 12) as usize]
            } else {
                [0, 1, 2, 3, 5, 9][(r % 6) as usize]
            }
        } else if self.depth == 1 {
            [0, 1, 2, 3, 1, 2, 0, 5][(r % 8) as usize]
        } else {
            [0, 1, 2, 1][(r % 4) as usize]
        }
    }
    fn nested<T>(&mut self, f: impl FnOnce(&mut Self) -> T) -> T {
        self.depth += 1;
        let r = f(self);
        self.depth -= 1;
        r
    }
}

pub trait Tv: CanonicalSerialize + CanonicalDeserialize + PartialEq + std::fmt::Debug + Sized + 'static {
    const KIND: &'static str;
    fn tname() -> String;
    fn gen(g: &mut G) -> Self;
    /// append the independent expected encoding of `self`
    fn enc(&self, c: Compress, out: &mut Enc);
    /// smallest possible encoding of a value of this type
    fn min_size() -> usize;
    /// false when hostile length prefixes could legitimately make deserialization spin (sequences of
    /// zero-sized elements): such types are excluded from the hostile-prefix and uniform-byte cases
    fn hostile_ok() -> bool {
        true
    }
    /// names of the length-prefixed containers occurring in this type (with repetitions)
    fn len_kinds(_out: &mut Vec<&'static str>) {}
}

macro_rules! tv_int {
    ($($t:ty),*) => {$(
        impl Tv for $t {
            const KIND: &'static str = stringify!($t);
            fn tname() -> String { stringify!($t).into() }
            fn gen(g: &mut G) -> Self {
                match g.u32() % 8 {
                    0 => 0 as $t,
                    1 => <$t>::MAX,
                    2 => <$t>::MIN,
                    3 => 1 as $t,
                    4 => (<$t>::MAX >> 1) as $t,
                    _ => g.u64() as $t,
                }
            }
            fn enc(&self, c: Compress, out: &mut Enc) {
                let st = out.begin();
                // little-endian two's complement, written out byte by byte
                let mut v = *self as i128 as u128;
                for _ in 0..core::mem::size_of::<$t>() {
                    out.bytes.push((v & 0xff) as u8);
                    v >>= 8;
                }
                out.end(st, Self::KIND, self.serialized_size(c));
            }
            fn min_size() -> usize { core::mem::size_of::<$t>() }
        }
    )*};
}
tv_int!(u8, u16, u32, u64, i8, i16, i32, i64);

impl Tv for usize {
    const KIND: &'static str = "usize";
    fn tname() -> String {
        "usize".into()
    }
    fn gen(g: &mut G) -> Self {
        match g.u32() % 6 {
            0 => 0,
            1 => usize::MAX,
            2 => 1 << 32,
            3 => (1 << 32) - 1,
            _ => g.u64() as usize,
        }
    }
    fn enc(&self, c: Compress, out: &mut Enc) {
        let st = out.begin();
        let mut v = *self as u128;
        for _ in 0..8 {
            out.bytes.push((v & 0xff) as u8);
            v >>= 8;
        }
        out.end(st, Self::KIND, self.serialized_size(c));
    }
    fn min_size() -> usize {
        8
    }
}
impl Tv for isize {
    const KIND: &'static str = "isize";
    fn tname() -> String {
        "isize".into()
    }
    fn gen(g: &mut G) -> Self {
        match g.u32() % 6 {
            0 => 0,
            1 => isize::MAX,
            2 => isize::MIN,
            3 => -1,
            _ => g.u64() as isize,
        }
    }
    fn enc(&self, c: Compress, out: &mut Enc) {
        let st = out.begin();
        let mut v = *self as i128 as u128;
        for _ in 0..8 {
            out.bytes.push((v & 0xff) as u8);
            v >>= 8;
        }
        out.end(st, Self::KIND, self.serialized_size(c));
    }
    fn min_size() -> usize {
        8
    }
}

impl Tv for bool {
    const KIND: &'static str = "bool";
    fn tname() -> String {
        "bool".into()
    }
    fn gen(g: &mut G) -> Self {
        g.u32() & 1 == 1
    }
    fn enc(&self, c: Compress, out: &mut Enc) {
        let st = out.begin();
        out.bool_byte(*self);
        out.end(st, Self::KIND, self.serialized_size(c));
    }
    fn min_size() -> usize {
        1
    }
}

impl Tv for () {
    const KIND: &'static str = "unit";
    fn tname() -> String {
        "()".into()
    }
    fn gen(_: &mut G) -> Self {}
    fn enc(&self, c: Compress, out: &mut Enc) {
        let st = out.begin();
        out.end(st, Self::KIND, self.serialized_size(c));
    }
    fn min_size() -> usize {
        0
    }
}

impl<T: Send + Sync + 'static> Tv for PhantomData<T> {
    const KIND: &'static str = "PhantomData";
    fn tname() -> String {
        "PhantomData".into()
    }
    fn gen(_: &mut G) -> Self {
        PhantomData
    }
    fn enc(&self, c: Compress, out: &mut Enc) {
        let st = out.begin();
        out.end(st, Self::KIND, self.serialized_size(c));
    }
    fn min_size() -> usize {
        0
    }
}

impl<T: Tv> Tv for Option<T> {
    const KIND: &'static str = "Option";
    fn tname() -> String {
        format!("Option<{}>", T::tname())
    }
    fn gen(g: &mut G) -> Self {
        if g.u32() % 3 == 0 {
            None
        } else {
            Some(g.nested(T::gen))
        }
    }
    fn enc(&self, c: Compress, out: &mut Enc) {
        let st = out.begin();
        out.bool_byte(self.is_some());
        if let Some(v) = self {
            v.enc(c, out);
        }
        out.end(st, Self::KIND, self.serialized_size(c));
    }
    fn min_size() -> usize {
        1
    }
    fn hostile_ok() -> bool {
        T::hostile_ok()
    }
    fn len_kinds(out: &mut Vec<&'static str>) {
        T::len_kinds(out)
    }
}

macro_rules! tv_tuple {
    ($(($($ty:ident : $no:tt),+))*) => {$(
        impl<$($ty: Tv),+> Tv for ($($ty,)+) {
            const KIND: &'static str = "tuple";
            fn tname() -> String { let v: Vec<String> = vec![$($ty::tname()),+]; format!("({},)", v.join(",")) }
            fn gen(g: &mut G) -> Self { g.nested(|g| ($($ty::gen(g),)+)) }
            fn enc(&self, c: Compress, out: &mut Enc) {
                let st = out.begin();
                $( self.$no.enc(c, out); )+
                out.end(st, Self::KIND, self.serialized_size(c));
            }
            fn min_size() -> usize { 0 $(+ $ty::min_size())+ }
            fn hostile_ok() -> bool { true $(&& $ty::hostile_ok())+ }
            fn len_kinds(out: &mut Vec<&'static str>) { $($ty::len_kinds(out);)+ }
        }
    )*};
}
tv_tuple! {
    (A:0)
    (A:0, B:1)
    (A:0, B:1, C:2)
    (A:0, B:1, C:2, D:3)
    (A:0, B:1, C:2, D:3, E:4)
}

impl<T: Tv, const N: usize> Tv for [T; N] {
    const KIND: &'static str = "array";
    fn tname() -> String {
        format!("[{};{}]", T::tname(), N)
    }
    fn gen(g: &mut G) -> Self {
        g.nested(|g| core::array::from_fn(|_| T::gen(g)))
    }
    fn enc(&self, c: Compress, out: &mut Enc) {
        let st = out.begin();
        for x in self {
            x.enc(c, out);
        }
        out.end(st, Self::KIND, self.serialized_size(c));
    }
    fn min_size() -> usize {
        N * T::min_size()
    }
    fn hostile_ok() -> bool {
        T::hostile_ok()
    }
    fn len_kinds(out: &mut Vec<&'static str>) {
        if N > 0 {
            T::len_kinds(out)
        }
    }
}

macro_rules! tv_seq {
    ($cont:ident, $name:literal, $push:ident) => {
        impl<T: Tv> Tv for $cont<T> {
            const KIND: &'static str = $name;
            fn tname() -> String {
                format!("{}<{}>", $name, T::tname())
            }
            fn gen(g: &mut G) -> Self {
                let n = g.len();
                g.nested(|g| {
                    let mut v = $cont::new();
                    for _ in 0..n {
                        v.$push(T::gen(g));
                    }
                    v
                })
            }
            fn enc(&self, c: Compress, out: &mut Enc) {
                let st = out.begin();
                out.len_prefix($name, self.len(), T::min_size());
                for x in self.iter() {
                    x.enc(c, out);
                }
                out.end(st, Self::KIND, self.serialized_size(c));
            }
            fn min_size() -> usize {
                8
            }
            fn hostile_ok() -> bool {
                T::min_size() > 0 && T::hostile_ok()
            }
            fn len_kinds(out: &mut Vec<&'static str>) {
                out.push($name);
                T::len_kinds(out)
            }
        }
    };
}
tv_seq!(Vec, "Vec", push);

/// VecDeque: the value depends only on the element sequence, but the ring buffer's layout depends on
/// the history of operations that built it; generate every layout a user can produce (contiguous,
/// wrapped by push_front, wrapped by FIFO use at capacity, rotated, drained at the front).
impl<T: Tv> Tv for VecDeque<T> {
    const KIND: &'static str = "VecDeque";
    fn tname() -> String {
        format!("VecDeque<{}>", T::tname())
    }
    fn gen(g: &mut G) -> Self {
        let n = g.len();
        let how = g.u32() % 6;
        let extra = 1 + (g.u32() % 5) as usize;
        g.nested(|g| {
            let mut v = VecDeque::new();
            match how {
                0 => {
                    for _ in 0..n {
                        v.push_back(T::gen(g));
                    }
                },
                1 => {
                    for _ in 0..n {
                        v.push_front(T::gen(g));
                    }
                },
                2 => {
                    for i in 0..n {
                        if i % 2 == 0 {
                            v.push_back(T::gen(g))
                        } else {
                            v.push_front(T::gen(g))
                        }
                    }
                },
                3 => {
                    // FIFO at capacity: head moves forward, tail wraps around
                    v = VecDeque::with_capacity(n.max(1));
                    for _ in 0..n {
                        v.push_back(T::gen(g));
                    }
                    for _ in 0..extra.min(n) {
                        let x = v.pop_front().unwrap();
                        v.push_back(x);
                    }
                },
                4 => {
                    for _ in 0..n {
                        v.push_back(T::gen(g));
                    }
                    if n > 0 {
                        v.rotate_left(extra % n);
                        v.push_front(T::gen(g));
                        v.pop_back();
                    }
                },
                _ => {
                    for _ in 0..n + extra {
                        v.push_back(T::gen(g));
                    }
                    for _ in 0..extra {
                        v.pop_front();
                    }
                    if n > 1 {
                        let x = v.pop_back().unwrap();
                        v.push_front(x);
                    }
                },
            }
            v
        })
    }
    fn enc(&self, c: Compress, out: &mut Enc) {
        let st = out.begin();
        if !self.as_slices().1.is_empty() {
            out.wrapped_deque = true;
        }
        out.len_prefix("VecDeque", self.len(), T::min_size());
        for i in 0..self.len() {
            self[i].enc(c, out);
        }
        out.end(st, Self::KIND, self.serialized_size(c));
    }
    fn min_size() -> usize {
        8
    }
    fn hostile_ok() -> bool {
        T::min_size() > 0 && T::hostile_ok()
    }
    fn len_kinds(out: &mut Vec<&'static str>) {
        out.push("VecDeque");
        T::len_kinds(out)
    }
}
tv_seq!(LinkedList, "LinkedList", push_back);

impl<T: Tv + Ord> Tv for BTreeSet<T> {
    const KIND: &'static str = "BTreeSet";
    fn tname() -> String {
        format!("BTreeSet<{}>", T::tname())
    }
    fn gen(g: &mut G) -> Self {
        let n = g.len();
        g.nested(|g| (0..n).map(|_| T::gen(g)).collect())
    }
    fn enc(&self, c: Compress, out: &mut Enc) {
        let st = out.begin();
        out.len_prefix("BTreeSet", self.len(), T::min_size());
        // ascending order of the elements
        let mut v: Vec<&T> = self.iter().collect();
        v.sort();
        for x in v {
            x.enc(c, out);
        }
        out.end(st, Self::KIND, self.serialized_size(c));
    }
    fn min_size() -> usize {
        8
    }
    fn hostile_ok() -> bool {
        T::min_size() > 0 && T::hostile_ok()
    }
    fn len_kinds(out: &mut Vec<&'static str>) {
        out.push("BTreeSet");
        T::len_kinds(out)
    }
}

impl<K: Tv + Ord, V: Tv> Tv for BTreeMap<K, V> {
    const KIND: &'static str = "BTreeMap";
    fn tname() -> String {
        format!("BTreeMap<{},{}>", K::tname(), V::tname())
    }
    fn gen(g: &mut G) -> Self {
        let n = g.len();
        g.nested(|g| (0..n).map(|_| (K::gen(g), V::gen(g))).collect())
    }
    fn enc(&self, c: Compress, out: &mut Enc) {
        let st = out.begin();
        out.len_prefix("BTreeMap", self.len(), K::min_size() + V::min_size());
        let mut v: Vec<(&K, &V)> = self.iter().collect();
        v.sort_by(|a, b| a.0.cmp(b.0));
        for (k, x) in v {
            k.enc(c, out);
            x.enc(c, out);
        }
        out.end(st, Self::KIND, self.serialized_size(c));
    }
    fn min_size() -> usize {
        8
    }
    fn hostile_ok() -> bool {
        K::min_size() + V::min_size() > 0 && K::hostile_ok() && V::hostile_ok()
    }
    fn len_kinds(out: &mut Vec<&'static str>) {
        out.push("BTreeMap");
        K::len_kinds(out);
        V::len_kinds(out)
    }
}

const STR_PIECES: &[&str] = &["", "a", "Z", "\u{e9}", "\u{3b1}\u{3b2}", "\u{20ac}", "\u{4e2d}\u{6587}", "\u{1f980}", "\0", "\u{7f}", "\u{80}", "\u{7ff}", "\u{800}", "\u{ffff}", "\u{10000}", "\u{10ffff}", " ", "\n"];

impl Tv for String {
    const KIND: &'static str = "String";
    fn tname() -> String {
        "String".into()
    }
    fn gen(g: &mut G) -> Self {
        let n = g.len();
        let mut s = String::new();
        for _ in 0..n {
            s.push_str(STR_PIECES[g.u32() as usize % STR_PIECES.len()]);
        }
        s
    }
    fn enc(&self, c: Compress, out: &mut Enc) {
        let st = out.begin();
        // UTF-8 bytes produced char by char from the scalar values (independent of `as_bytes`)
        let mut payload = vec![];
        for ch in self.chars() {
            let u = ch as u32;
            if u < 0x80 {
                payload.push(u as u8);
            } else if u < 0x800 {
                payload.push(0xC0 | (u >> 6) as u8);
                payload.push(0x80 | (u & 0x3f) as u8);
            } else if u < 0x10000 {
                payload.push(0xE0 | (u >> 12) as u8);
                payload.push(0x80 | ((u >> 6) & 0x3f) as u8);
                payload.push(0x80 | (u & 0x3f) as u8);
            } else {
                payload.push(0xF0 | (u >> 18) as u8);
                payload.push(0x80 | ((u >> 12) & 0x3f) as u8);
                payload.push(0x80 | ((u >> 6) & 0x3f) as u8);
                payload.push(0x80 | (u & 0x3f) as u8);
            }
        }
        out.len_prefix("String", payload.len(), 1);
        out.marks.push(Mark { pos: out.bytes.len(), kind: MarkKind::Utf8 { len: payload.len() }, depth: out.depth });
        out.bytes.extend_from_slice(&payload);
        out.end(st, Self::KIND, self.serialized_size(c));
    }
    fn min_size() -> usize {
        8
    }
    fn len_kinds(out: &mut Vec<&'static str>) {
        out.push("String")
    }
}

impl Tv for BigUint {
    const KIND: &'static str = "BigUint";
    fn tname() -> String {
        "BigUint".into()
    }
    fn gen(g: &mut G) -> Self {
        match g.u32() % 6 {
            0 => BigUint::from(0u8),
            1 => BigUint::from(1u8),
            2 => BigUint::from(255u8),
            3 => BigUint::from(256u32),
            4 => (BigUint::from(1u8) << (g.u32() % 700) as usize) - 1u8,
            _ => {
                let n = 1 + g.u32() as usize % 12;
                BigUint::from_bytes_le(&(0..n * 7).map(|_| g.u32() as u8).collect::<Vec<_>>())
            },
        }
    }
    fn enc(&self, c: Compress, out: &mut Enc) {
        let st = out.begin();
        // minimal little-endian bytes, a single zero byte for 0 (by repeated division)
        let mut payload = vec![];
        let mut v = self.clone();
        let b = BigUint::from(256u32);
        let zero = BigUint::from(0u8);
        while v > zero {
            let r = &v % &b;
            payload.push(r.to_u64_digits().first().copied().unwrap_or(0) as u8);
            v /= &b;
        }
        if payload.is_empty() {
            payload.push(0);
        }
        out.len_prefix("BigUint", payload.len(), 1);
        out.bytes.extend_from_slice(&payload);
        out.end(st, Self::KIND, self.serialized_size(c));
    }
    fn min_size() -> usize {
        8
    }
    fn len_kinds(out: &mut Vec<&'static str>) {
        out.push("BigUint")
    }
}

impl<const N: usize> Tv for BigInt<N> {
    const KIND: &'static str = "BigInt";
    fn tname() -> String {
        format!("BigInt<{N}>")
    }
    fn gen(g: &mut G) -> Self {
        BigInt(core::array::from_fn(|_| monitor::edge_limb(g.rng)))
    }
    fn enc(&self, c: Compress, out: &mut Enc) {
        let st = out.begin();
        for l in self.0.iter() {
            for k in 0..8 {
                out.bytes.push((l >> (8 * k)) as u8);
            }
        }
        out.end(st, Self::KIND, self.serialized_size(c));
    }
    fn min_size() -> usize {
        8 * N
    }
}

impl<T: Tv + Clone + Send + Sync> Tv for Arc<T> {
    const KIND: &'static str = "Arc";
    fn tname() -> String {
        format!("Arc<{}>", T::tname())
    }
    fn gen(g: &mut G) -> Self {
        Arc::new(T::gen(g))
    }
    fn enc(&self, c: Compress, out: &mut Enc) {
        let st = out.begin();
        (**self).enc(c, out);
        out.end(st, Self::KIND, self.serialized_size(c));
    }
    fn min_size() -> usize {
        T::min_size()
    }
    fn hostile_ok() -> bool {
        T::hostile_ok()
    }
    fn len_kinds(out: &mut Vec<&'static str>) {
        T::len_kinds(out)
    }
}

impl<T: Tv + Clone + Send + Sync> Tv for Cow<'static, T> {
    const KIND: &'static str = "Cow";
    fn tname() -> String {
        format!("Cow<{}>", T::tname())
    }
    fn gen(g: &mut G) -> Self {
        Cow::Owned(T::gen(g))
    }
    fn enc(&self, c: Compress, out: &mut Enc) {
        let st = out.begin();
        self.as_ref().enc(c, out);
        out.end(st, Self::KIND, self.serialized_size(c));
    }
    fn min_size() -> usize {
        T::min_size()
    }
    fn hostile_ok() -> bool {
        T::hostile_ok()
    }
    fn len_kinds(out: &mut Vec<&'static str>) {
        T::len_kinds(out)
    }
}

macro_rules! tv_wrap {
    ($w:ident, $mode:expr) => {
        impl<T: Tv> Tv for $w<T> {
            const KIND: &'static str = stringify!($w);
            fn tname() -> String {
                format!("{}<{}>", stringify!($w), T::tname())
            }
            fn gen(g: &mut G) -> Self {
                $w(T::gen(g))
            }
            fn enc(&self, c: Compress, out: &mut Enc) {
                let st = out.begin();
                // the inner mode is the pinned one whatever the outer mode
                self.0.enc($mode, out);
                out.end(st, Self::KIND, self.serialized_size(c));
            }
            fn min_size() -> usize {
                T::min_size()
            }
            fn hostile_ok() -> bool {
                T::hostile_ok()
            }
            fn len_kinds(out: &mut Vec<&'static str>) {
                T::len_kinds(out)
            }
        }
    };
}
tv_wrap!(CompressedChecked, Compress::Yes);
tv_wrap!(CompressedUnchecked, Compress::Yes);
tv_wrap!(UncompressedChecked, Compress::No);
tv_wrap!(UncompressedUnchecked, Compress::No);

// ------------------------------------------------------------------------------------------------
// leaves whose two modes differ: a toy-curve point (p = 239, cofactor 2) and a 255-bit field element

pub type ToyPt = ark_ec::short_weierstrass::Affine<cfgs::toy_curves::sw_a_h2>;
pub type ToyFr = cfgs::toy_curves::F127;

impl Tv for ToyPt {
    const KIND: &'static str = "point";
    fn tname() -> String {
        "Affine<sw_a_h2>".into()
    }
    fn gen(g: &mut G) -> Self {
        if g.u32() % 8 == 0 {
            ToyPt::identity()
        } else {
            // a point of the prime-order subgroup: k * generator (group law and scalar mul: C03/C04)
            let k = ToyFr::from(g.u64() % 127);
            (ToyPt::generator() * k).into_affine()
        }
    }
    fn enc(&self, c: Compress, out: &mut Enc) {
        let st = out.begin();
        const P: u64 = 239;
        let (x, y, flag) = if self.infinity {
            (0u64, 0u64, 0x40u8)
        } else {
            let x = self.x.into_bigint().0[0];
            let y = self.y.into_bigint().0[0];
            // y is "negative" when it is the larger of {y, p - y}
            let neg = (P - y) % P;
            (x, y, if y > neg { 0x80 } else { 0 })
        };
        match c {
            Compress::Yes => {
                out.bytes.push(x as u8);
                out.bytes.push(flag);
            },
            Compress::No => {
                out.bytes.push(x as u8);
                out.bytes.push(y as u8);
                out.bytes.push(flag);
            },
        }
        out.end(st, Self::KIND, self.serialized_size(c));
    }
    fn min_size() -> usize {
        2
    }
}

pub type Fr255 = cfgs::shipped::bls12_381::Fr;
impl Tv for Fr255 {
    const KIND: &'static str = "field";
    fn tname() -> String {
        "bls12_381::Fr".into()
    }
    fn gen(g: &mut G) -> Self {
        match g.u32() % 5 {
            0 => Fr255::from(0u8),
            1 => Fr255::from(1u8),
            2 => -Fr255::from(1u8),
            _ => Fr255::from(g.u64()) * Fr255::from(g.u64()) * Fr255::from(g.u64()) * Fr255::from(g.u64()) + Fr255::from(g.u64()),
        }
    }
    fn enc(&self, c: Compress, out: &mut Enc) {
        let st = out.begin();
        for l in self.into_bigint().0.iter() {
            for k in 0..8 {
                out.bytes.push((l >> (8 * k)) as u8);
            }
        }
        out.end(st, Self::KIND, self.serialized_size(c));
    }
    fn min_size() -> usize {
        32
    }
}

// ------------------------------------------------------------------------------------------------
// derive-macro structs

#[derive(CanonicalSerialize, CanonicalDeserialize, PartialEq, Debug, Clone)]
pub struct Named {
    pub a: u8,
    pub b: Vec<u16>,
    pub c: Option<bool>,
    pub d: String,
    pub e: i64,
}
impl Tv for Named {
    const KIND: &'static str = "derive/named";
    fn tname() -> String {
        "Named".into()
    }
    fn gen(g: &mut G) -> Self {
        g.nested(|g| Named { a: Tv::gen(g), b: Tv::gen(g), c: Tv::gen(g), d: Tv::gen(g), e: Tv::gen(g) })
    }
    fn enc(&self, c: Compress, out: &mut Enc) {
        let st = out.begin();
        self.a.enc(c, out);
        self.b.enc(c, out);
        self.c.enc(c, out);
        self.d.enc(c, out);
        self.e.enc(c, out);
        out.end(st, Self::KIND, self.serialized_size(c));
    }
    fn min_size() -> usize {
        1 + 8 + 1 + 8 + 8
    }
    fn len_kinds(out: &mut Vec<&'static str>) {
        out.extend(["Vec", "String"])
    }
}

#[derive(CanonicalSerialize, CanonicalDeserialize, PartialEq, Debug, Clone)]
pub struct TupS(pub u32, pub Vec<u8>, pub bool);
impl Tv for TupS {
    const KIND: &'static str = "derive/tuple";
    fn tname() -> String {
        "TupS".into()
    }
    fn gen(g: &mut G) -> Self {
        g.nested(|g| TupS(Tv::gen(g), Tv::gen(g), Tv::gen(g)))
    }
    fn enc(&self, c: Compress, out: &mut Enc) {
        let st = out.begin();
        self.0.enc(c, out);
        self.1.enc(c, out);
        self.2.enc(c, out);
        out.end(st, Self::KIND, self.serialized_size(c));
    }
    fn min_size() -> usize {
        4 + 8 + 1
    }
    fn len_kinds(out: &mut Vec<&'static str>) {
        out.push("Vec")
    }
}

#[derive(CanonicalSerialize, CanonicalDeserialize, PartialEq, Debug, Clone)]
pub struct NestedTup {
    pub a: (u8, (u16, bool)),
    pub b: ((u32,), Vec<u8>),
    pub c: (),
    pub d: (u64, (i8, (Option<u8>, (String,)))),
}
impl Tv for NestedTup {
    const KIND: &'static str = "derive/nested-tuple";
    fn tname() -> String {
        "NestedTup".into()
    }
    fn gen(g: &mut G) -> Self {
        g.nested(|g| NestedTup { a: Tv::gen(g), b: Tv::gen(g), c: (), d: Tv::gen(g) })
    }
    fn enc(&self, c: Compress, out: &mut Enc) {
        let st = out.begin();
        // fields in declaration order, nested tuples flattened left to right
        self.a.0.enc(c, out);
        (self.a.1).0.enc(c, out);
        (self.a.1).1.enc(c, out);
        ((self.b.0).0).enc(c, out);
        self.b.1.enc(c, out);
        self.d.0.enc(c, out);
        (self.d.1).0.enc(c, out);
        ((self.d.1).1).0.enc(c, out);
        ((((self.d.1).1).1).0).enc(c, out);
        out.end(st, Self::KIND, self.serialized_size(c));
    }
    fn min_size() -> usize {
        1 + 2 + 1 + 4 + 8 + 8 + 1 + 1 + 8
    }
    fn len_kinds(out: &mut Vec<&'static str>) {
        out.extend(["Vec", "String"])
    }
}

#[derive(CanonicalSerialize, CanonicalDeserialize, PartialEq, Debug, Clone)]
pub struct TupNested(pub u8, pub (u16, (bool, Vec<u8>)), pub ((), (i32,)));
impl Tv for TupNested {
    const KIND: &'static str = "derive/nested-tuple";
    fn tname() -> String {
        "TupNested".into()
    }
    fn gen(g: &mut G) -> Self {
        g.nested(|g| TupNested(Tv::gen(g), Tv::gen(g), Tv::gen(g)))
    }
    fn enc(&self, c: Compress, out: &mut Enc) {
        let st = out.begin();
        self.0.enc(c, out);
        (self.1).0.enc(c, out);
        ((self.1).1).0.enc(c, out);
        ((self.1).1).1.enc(c, out);
        (((self.2).1).0).enc(c, out);
        out.end(st, Self::KIND, self.serialized_size(c));
    }
    fn min_size() -> usize {
        1 + 2 + 1 + 8 + 4
    }
    fn len_kinds(out: &mut Vec<&'static str>) {
        out.push("Vec")
    }
}

#[derive(CanonicalSerialize, CanonicalDeserialize, PartialEq, Debug, Clone)]
pub struct GenS<T: CanonicalSerialize + CanonicalDeserialize, U: CanonicalSerialize + CanonicalDeserialize + Send> {
    pub x: T,
    pub y: Vec<U>,
    pub z: (T, U),
    pub p: PhantomData<U>,
}
impl<T: Tv + Send, U: Tv + Send> Tv for GenS<T, U> {
    const KIND: &'static str = "derive/generic";
    fn tname() -> String {
        format!("GenS<{},{}>", T::tname(), U::tname())
    }
    fn gen(g: &mut G) -> Self {
        g.nested(|g| GenS { x: T::gen(g), y: Tv::gen(g), z: (T::gen(g), U::gen(g)), p: PhantomData })
    }
    fn enc(&self, c: Compress, out: &mut Enc) {
        let st = out.begin();
        self.x.enc(c, out);
        self.y.enc(c, out);
        self.z.0.enc(c, out);
        self.z.1.enc(c, out);
        out.end(st, Self::KIND, self.serialized_size(c));
    }
    fn min_size() -> usize {
        T::min_size() * 2 + 8 + U::min_size()
    }
    fn hostile_ok() -> bool {
        T::hostile_ok() && U::hostile_ok() && U::min_size() > 0
    }
    fn len_kinds(out: &mut Vec<&'static str>) {
        T::len_kinds(out);
        out.push("Vec");
        U::len_kinds(out);
        T::len_kinds(out);
        U::len_kinds(out)
    }
}

#[derive(CanonicalSerialize, CanonicalDeserialize, PartialEq, Debug, Clone)]
pub struct Outer {
    pub n: Named,
    pub t: TupS,
    pub g: GenS<u8, Named>,
    pub nt: NestedTup,
    pub pt: ToyPt,
}
impl Tv for Outer {
    const KIND: &'static str = "derive/outer";
    fn tname() -> String {
        "Outer".into()
    }
    fn gen(g: &mut G) -> Self {
        g.nested(|g| Outer { n: Tv::gen(g), t: Tv::gen(g), g: Tv::gen(g), nt: Tv::gen(g), pt: Tv::gen(g) })
    }
    fn enc(&self, c: Compress, out: &mut Enc) {
        let st = out.begin();
        self.n.enc(c, out);
        self.t.enc(c, out);
        self.g.enc(c, out);
        self.nt.enc(c, out);
        self.pt.enc(c, out);
        out.end(st, Self::KIND, self.serialized_size(c));
    }
    fn min_size() -> usize {
        Named::min_size() + TupS::min_size() + <GenS<u8, Named>>::min_size() + NestedTup::min_size() + 2
    }
    fn len_kinds(out: &mut Vec<&'static str>) {
        out.extend(["Vec", "String"])
    }
}

#[derive(CanonicalSerialize, CanonicalDeserialize, PartialEq, Debug, Clone)]
pub struct UnitS;
impl Tv for UnitS {
    const KIND: &'static str = "derive/unit";
    fn tname() -> String {
        "UnitS".into()
    }
    fn gen(_: &mut G) -> Self {
        UnitS
    }
    fn enc(&self, c: Compress, out: &mut Enc) {
        let st = out.begin();
        out.end(st, Self::KIND, self.serialized_size(c));
    }
    fn min_size() -> usize {
        0
    }
}
