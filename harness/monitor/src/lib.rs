//! Shared runtime-monitor machinery: argument parsing, the per-shard `Report` (evaluations, distinct
//! case digests, observation classes, samples, violations), panic capture and the sharded runner.
//!
//! A monitor binary builds a list of work `Item`s (one per configuration x operation group); the
//! runner executes them on all cores with an independent PRNG per item (seed ^ hash(item name)), so
//! every item can be replayed alone with `--only <name>`.

use ark_std::rand::{rngs::StdRng, RngCore, SeedableRng};
pub use serde_json::{json, Value};
use std::cell::RefCell;
use std::collections::{BTreeMap, BTreeSet, HashSet};
use std::hash::{Hash, Hasher};
use std::panic::{catch_unwind, AssertUnwindSafe};
use std::sync::atomic::{AtomicUsize, Ordering};
use std::sync::Mutex;
use std::time::Instant;

pub type Rng = StdRng;

#[derive(Clone, Copy, PartialEq, Eq, Debug)]
pub enum Tier {
    Quick,
    Thorough,
}

#[derive(Clone, Debug)]
pub struct Args {
    pub prop: String,
    pub tier: Tier,
    pub seed: u64,
    pub out: Option<String>,
    pub only: Option<String>,
    pub jobs: usize,
    pub list: bool,
    pub extra: BTreeMap<String, String>,
}

impl Args {
    pub fn parse() -> Self {
        let mut a = Args {
            prop: String::new(),
            tier: Tier::Quick,
            seed: 0,
            out: None,
            only: None,
            jobs: std::thread::available_parallelism().map(|n| n.get()).unwrap_or(4),
            list: false,
            extra: BTreeMap::new(),
        };
        let mut it = std::env::args().skip(1);
        while let Some(k) = it.next() {
            match k.as_str() {
                "--prop" => a.prop = it.next().expect("--prop value"),
                "--tier" => {
                    a.tier = match it.next().expect("--tier value").as_str() {
                        "quick" => Tier::Quick,
                        "thorough" => Tier::Thorough,
                        t => panic!("unknown tier {t}"),
                    }
                },
                "--seed" => a.seed = it.next().expect("--seed value").parse().expect("seed int"),
                "--out" => a.out = it.next(),
                "--only" => a.only = it.next(),
                "--jobs" => a.jobs = it.next().expect("--jobs value").parse().expect("jobs int"),
                "--list" => a.list = true,
                other => {
                    if let Some(name) = other.strip_prefix("--") {
                        let v = it.next().unwrap_or_default();
                        a.extra.insert(name.to_string(), v);
                    } else {
                        panic!("unexpected argument {other}");
                    }
                },
            }
        }
        a
    }
    pub fn quick(&self) -> bool {
        self.tier == Tier::Quick
    }
    /// pick a budget by tier
    pub fn pick<T>(&self, quick: T, thorough: T) -> T {
        if self.quick() {
            quick
        } else {
            thorough
        }
    }
}

// ------------------------------------------------------------------------------------------------
// digests

/// Deterministic 64-bit digest of any hashable value (std SipHash with fixed keys).
pub fn digest<T: Hash + ?Sized>(t: &T) -> u64 {
    #[allow(deprecated)]
    let mut h = std::hash::SipHasher::new_with_keys(0x5eed, 0xfeed);
    t.hash(&mut h);
    h.finish()
}

pub fn mix(a: u64, b: u64) -> u64 {
    let mut z = a ^ b.wrapping_mul(0x9E3779B97F4A7C15).rotate_left(31);
    z = (z ^ (z >> 30)).wrapping_mul(0xBF58476D1CE4E5B9);
    z = (z ^ (z >> 27)).wrapping_mul(0x94D049BB133111EB);
    z ^ (z >> 31)
}

// ------------------------------------------------------------------------------------------------
// panic capture

#[derive(Clone, Debug)]
pub struct PanicInfo {
    pub msg: String,
    pub file: String,
    pub line: u32,
    /// innermost frame that lies in the repository under test (file:line), when the panic was
    /// raised elsewhere (std, a dependency) on behalf of repository code
    pub via_repo: Option<String>,
    pub harness: bool,
}

impl PanicInfo {
    pub fn in_harness(&self) -> bool {
        self.harness
    }
    pub fn site(&self) -> String {
        match &self.via_repo {
            Some(v) if !is_repo_path(&self.file) => v.clone(),
            _ => format!("{}:{}", self.file, self.line),
        }
    }
    pub fn to_json(&self) -> Value {
        json!({"panic": self.msg, "at": self.site(), "raised_at": format!("{}:{}", self.file, self.line)})
    }
}

/// Path classification (works for /repo + /verif/harness and for private copies of both).
pub fn is_harness_path(f: &str) -> bool {
    f.contains("/harness/") || f.contains("/mon_") || f.contains("/oracle/src/") || f.contains("/cfgs/src/") || f.contains("/monitor/src/")
}
pub fn is_repo_path(f: &str) -> bool {
    !is_harness_path(f)
        && !f.contains("/.cargo/")
        && !f.starts_with("/rustc/")
        && ["/ff/src/", "/ec/src/", "/poly/src/", "/serialize/src/", "/curves/", "/test-curves/", "/ff-macros/", "/ff-asm/", "/serialize-derive/", "/test-templates/"]
            .iter()
            .any(|m| f.contains(m))
}

thread_local! {
    static LAST_PANIC: RefCell<Option<PanicInfo>> = const { RefCell::new(None) };
}

/// Decide whether a panic raised in third-party code (std, num-bigint, ...) or at a harness source
/// location was raised on behalf of the repository or of the harness. Two rules, applied to the
/// backtrace from the innermost frame outwards (panic machinery, std and the monitor crate skipped):
///  * a frame whose *symbol* is repository code (an `ark_*` function, or an `impl ... as ark_*`
///    method — this is how code generated by the repository's derive macros appears: its source
///    location is the harness file that invokes the macro, but the function is the library's) or
///    whose *file* lies in the repository  => repository;
///  * otherwise a frame in a harness file => harness.
fn classify_by_backtrace() -> (bool, Option<String>) {
    let bt = std::backtrace::Backtrace::force_capture().to_string();
    let mut cur_sym = String::new();
    for line in bt.lines() {
        let l = line.trim();
        if let Some(rest) = l.strip_prefix("at ") {
            let skip = cur_sym.starts_with("std::")
                || cur_sym.starts_with("core::")
                || cur_sym.starts_with("alloc::")
                || cur_sym.starts_with("<std::")
                || cur_sym.starts_with("<core::")
                || cur_sym.starts_with("<alloc::")
                || cur_sym.starts_with("rust_begin_unwind")
                || cur_sym.starts_with("__rust")
                || cur_sym.starts_with("monitor::")
                || cur_sym.starts_with("<monitor::");
            if skip {
                continue;
            }
            let sym_is_repo = cur_sym.starts_with("ark_") || cur_sym.starts_with("<ark_") || cur_sym.contains(" as ark_") || cur_sym.contains("<impl ark_");
            if sym_is_repo || is_repo_path(rest) {
                let mut parts = rest.rsplitn(2, ':');
                let _col = parts.next();
                let loc = parts.next().unwrap_or(rest).to_string();
                let via = if is_repo_path(rest) { loc } else { format!("{} (generated by a repository macro, expanded at {})", cur_sym, loc) };
                return (false, Some(via));
            }
            if is_harness_path(rest) && !rest.contains("/monitor/src/") {
                if std::env::var_os("MONITOR_DEBUG_BT").is_some() {
                    eprintln!("--- panic classified as harness at frame `{}` {}\n{}", cur_sym, rest, bt);
                }
                return (true, None);
            }
        } else if let Some(idx) = l.find(": ") {
            // "  12: symbol"
            if l[..idx].chars().all(|c| c.is_ascii_digit()) {
                cur_sym = l[idx + 2..].to_string();
            }
        }
    }
    (false, None)
}

/// Install a silent panic hook that remembers message + location per thread.
pub fn install_panic_hook() {
    std::panic::set_hook(Box::new(|info| {
        let msg = if let Some(s) = info.payload().downcast_ref::<&str>() {
            s.to_string()
        } else if let Some(s) = info.payload().downcast_ref::<String>() {
            s.clone()
        } else {
            "<non-string panic>".to_string()
        };
        let (file, line) =
            info.location().map(|l| (l.file().to_string(), l.line())).unwrap_or_default();
        let mut msg = msg;
        if msg.len() > 300 {
            msg.truncate(300);
        }
        let (harness, via_repo) = if is_repo_path(&file) { (false, None) } else { classify_by_backtrace() };
        LAST_PANIC.with(|c| *c.borrow_mut() = Some(PanicInfo { msg, file, line, via_repo, harness }));
    }));
}

/// Run `f`, returning `Err(PanicInfo)` if it panicked.
pub fn guard<T>(f: impl FnOnce() -> T) -> Result<T, PanicInfo> {
    match catch_unwind(AssertUnwindSafe(f)) {
        Ok(v) => Ok(v),
        Err(_) => Err(LAST_PANIC.with(|c| c.borrow_mut().take()).unwrap_or(PanicInfo {
            msg: "<unknown>".into(),
            file: String::new(),
            line: 0,
            via_repo: None,
            harness: false,
        })),
    }
}

// ------------------------------------------------------------------------------------------------
// report

#[derive(Clone, Debug)]
pub struct Violation {
    pub signature: String,
    pub count: u64,
    pub detail: Value,
    pub item: String,
}

#[derive(Default, Clone, Debug)]
pub struct Report {
    pub evaluations: u64,
    pub digests: HashSet<u64>,
    /// cases known to be pairwise distinct by construction (exhaustive enumerations): counted, not stored
    pub distinct_by_construction: u64,
    /// non-trivial evaluations whose digest was not stored because the per-shard cap was reached
    pub digests_dropped: u64,
    pub classes: BTreeMap<String, u64>,
    pub required: BTreeSet<String>,
    /// classes that must be observed by *this item* (checked by the runner when the item ends)
    pub required_here: BTreeSet<String>,
    pub missing_here: Vec<String>,
    pub configs: BTreeSet<String>,
    pub ops: BTreeMap<String, u64>,
    pub samples: Vec<Value>,
    pub sample_keys: HashSet<String>,
    pub violations: BTreeMap<String, Violation>,
    pub harness_errors: Vec<String>,
    pub exhaustive: BTreeSet<String>,
    pub notes: Vec<String>,
    pub cur_item: String,
}

pub const MAX_SAMPLES: usize = 24;
pub const MAX_DIGESTS_PER_SHARD: usize = 4_000_000;
pub const MAX_DIGESTS_TOTAL: usize = 60_000_000;
pub const MAX_SIGNATURES: usize = 60;

impl Report {
    pub fn new() -> Self {
        Self::default()
    }
    /// Record one monitored evaluation. `d` identifies the case (configuration, operation, inputs);
    /// it is entered in the distinct set only when the case is non-trivial by the monitor's rule.
    #[inline]
    pub fn eval(&mut self, d: u64, nontrivial: bool) {
        self.evaluations += 1;
        if nontrivial {
            // exact up to a cap per shard; beyond it the count is a lower bound (noted in the report)
            if self.digests.len() < MAX_DIGESTS_PER_SHARD {
                self.digests.insert(d);
            } else {
                self.digests_dropped += 1;
            }
        }
    }
    /// Record one evaluation of a case that is distinct from every other by construction (an
    /// exhaustive enumeration); counted without storing a digest.
    #[inline]
    pub fn eval_enumerated(&mut self, nontrivial: bool) {
        self.evaluations += 1;
        if nontrivial {
            self.distinct_by_construction += 1;
        }
    }
    #[inline]
    pub fn op(&mut self, name: &str) {
        if let Some(c) = self.ops.get_mut(name) {
            *c += 1;
        } else {
            self.ops.insert(name.to_string(), 1);
        }
    }
    #[inline]
    pub fn class(&mut self, name: &str) {
        self.class_n(name, 1)
    }
    #[inline]
    pub fn class_if(&mut self, cond: bool, name: &str) {
        if cond {
            self.class_n(name, 1)
        }
    }
    pub fn class_n(&mut self, name: &str, n: u64) {
        if let Some(c) = self.classes.get_mut(name) {
            *c += n;
        } else {
            self.classes.insert(name.to_string(), n);
        }
    }
    /// Declare an observation class that must be seen at least once for the run to be conclusive.
    pub fn require(&mut self, name: &str) {
        self.required.insert(name.to_string());
        self.classes.entry(name.to_string()).or_insert(0);
    }
    /// Like `require`, but the class must be observed within the current work item.
    pub fn require_here(&mut self, name: &str) {
        self.required_here.insert(name.to_string());
        self.classes.entry(name.to_string()).or_insert(0);
    }
    pub fn config(&mut self, name: &str) {
        if !self.configs.contains(name) {
            self.configs.insert(name.to_string());
        }
    }
    /// Keep one sample per key, up to MAX_SAMPLES.
    pub fn sample(&mut self, key: &str, v: impl FnOnce() -> Value) {
        if self.samples.len() < MAX_SAMPLES && !self.sample_keys.contains(key) {
            self.sample_keys.insert(key.to_string());
            self.samples.push(v());
        }
    }
    pub fn violation(&mut self, signature: impl Into<String>, detail: Value) {
        let signature = signature.into();
        if let Some(v) = self.violations.get_mut(&signature) {
            v.count += 1;
        } else if self.violations.len() < MAX_SIGNATURES {
            let item = self.cur_item.clone();
            self.violations
                .insert(signature.clone(), Violation { signature, count: 1, detail, item });
        }
    }
    /// `cond` must hold; otherwise a violation with the given signature is recorded (detail built lazily).
    #[inline]
    pub fn check(&mut self, cond: bool, signature: impl FnOnce() -> String, detail: impl FnOnce() -> Value) -> bool {
        if !cond {
            let s = signature();
            if self.violations.contains_key(&s) || self.violations.len() < MAX_SIGNATURES {
                self.violation(s, detail());
            }
        }
        cond
    }
    /// Run a library call that is promised to be total; a panic is recorded as a violation and
    /// `None` returned.
    pub fn total<T>(&mut self, sig_prefix: &str, detail: impl FnOnce() -> Value, f: impl FnOnce() -> T) -> Option<T> {
        match guard(f) {
            Ok(v) => Some(v),
            Err(p) => {
                if p.in_harness() {
                    self.harness_errors.push(format!("{sig_prefix}: harness panic {} at {}", p.msg, p.site()));
                } else {
                    let mut d = detail();
                    if let Value::Object(m) = &mut d {
                        m.insert("panic".into(), json!(p.msg));
                        m.insert("at".into(), json!(p.site()));
                    }
                    self.violation(format!("{sig_prefix}/panic"), d);
                }
                None
            },
        }
    }
    pub fn exhaustive(&mut self, subspace: &str) {
        self.exhaustive.insert(subspace.to_string());
    }
    pub fn note(&mut self, s: impl Into<String>) {
        self.notes.push(s.into());
    }
    pub fn merge(&mut self, o: Report) {
        self.evaluations += o.evaluations;
        self.distinct_by_construction += o.distinct_by_construction;
        self.digests_dropped += o.digests_dropped;
        if self.digests.is_empty() {
            self.digests = o.digests;
        } else if self.digests.len() + o.digests.len() <= MAX_DIGESTS_TOTAL {
            self.digests.extend(o.digests);
        } else {
            // keep memory bounded: count the shard's distinct digests without storing them (shards
            // use disjoint (item, case) digests, so this does not over-count)
            self.distinct_by_construction += o.digests.len() as u64;
        }
        for (k, v) in o.classes {
            *self.classes.entry(k).or_insert(0) += v;
        }
        for (k, v) in o.ops {
            *self.ops.entry(k).or_insert(0) += v;
        }
        self.required.extend(o.required);
        self.configs.extend(o.configs);
        for (s, k) in o.samples.into_iter().zip(o.sample_keys.iter().cloned().chain(std::iter::repeat(String::new()))) {
            let _ = k;
            if self.samples.len() < MAX_SAMPLES {
                self.samples.push(s);
            }
        }
        for (k, v) in o.violations {
            if let Some(e) = self.violations.get_mut(&k) {
                e.count += v.count;
            } else if self.violations.len() < MAX_SIGNATURES {
                self.violations.insert(k, v);
            }
        }
        self.harness_errors.extend(o.harness_errors);
        self.missing_here.extend(o.missing_here);
        self.exhaustive.extend(o.exhaustive);
        self.notes.extend(o.notes);
    }

    pub fn to_json(&self, args: &Args, monitor: &str, rule: &str, wall_s: f64) -> Value {
        let mut missing: Vec<String> =
            self.required.iter().filter(|k| self.classes.get(*k).copied().unwrap_or(0) == 0).cloned().collect();
        missing.extend(self.missing_here.iter().cloned());
        json!({
            "property": args.prop,
            "monitor": monitor,
            "tier": if args.quick() {"quick"} else {"thorough"},
            "seed": args.seed,
            "evaluations": self.evaluations,
            "distinct_nontrivial": self.digests.len() as u64 + self.distinct_by_construction,
            "rule": rule,
            "classes": self.classes,
            "required_missing": missing,
            "ops": self.ops,
            "configs": self.configs,
            "samples": self.samples,
            "exhaustive_subspaces": self.exhaustive,
            "notes": self.notes,
            "distinct_is_lower_bound": self.digests_dropped > 0,
            "nontrivial_evaluations_not_tracked_for_distinctness": self.digests_dropped,
            "violations": self.violations.values().map(|v| json!({
                "signature": v.signature, "count": v.count, "detail": v.detail, "item": v.item,
            })).collect::<Vec<_>>(),
            "harness_errors": self.harness_errors,
            "wall_s": wall_s,
        })
    }
}

// ------------------------------------------------------------------------------------------------
// sharded runner

pub struct Item {
    pub name: String,
    pub run: Box<dyn Fn(&mut Report, &mut Rng, &Args) + Send + Sync>,
}

impl Item {
    pub fn new(name: impl Into<String>, f: impl Fn(&mut Report, &mut Rng, &Args) + Send + Sync + 'static) -> Self {
        Item { name: name.into(), run: Box::new(f) }
    }
}

pub fn item_rng(seed: u64, name: &str) -> Rng {
    StdRng::seed_from_u64(mix(seed, digest(name)))
}

/// Run all items (filtered by --only) on `args.jobs` threads; returns the merged report.
pub fn run_items(args: &Args, items: Vec<Item>) -> Report {
    install_panic_hook();
    let items: Vec<Item> = match &args.only {
        Some(o) => items.into_iter().filter(|i| i.name == *o || i.name.starts_with(&format!("{o}/"))).collect(),
        None => items,
    };
    if args.list {
        for i in &items {
            println!("{}", i.name);
        }
        std::process::exit(0);
    }
    let next = AtomicUsize::new(0);
    let merged = Mutex::new(Report::new());
    let jobs = args.jobs.max(1).min(items.len().max(1));
    std::thread::scope(|s| {
        for _ in 0..jobs {
            // big stacks: deep generic recursion in tower oracles / MNT pairings
            std::thread::Builder::new()
                .stack_size(256 << 20)
                .spawn_scoped(s, || loop {
                    let i = next.fetch_add(1, Ordering::SeqCst);
                    if i >= items.len() {
                        break;
                    }
                    let it = &items[i];
                    let mut rep = Report::new();
                    rep.cur_item = it.name.clone();
                    let mut rng = item_rng(args.seed, &it.name);
                    let t0 = Instant::now();
                    let res = guard(|| (it.run)(&mut rep, &mut rng, args));
                    if let Err(p) = res {
                        if p.in_harness() {
                            rep.harness_errors.push(format!("item {}: harness panic '{}' at {}", it.name, p.msg, p.site()));
                        } else {
                            // a library panic that escaped a monitor: the property promised a value
                            rep.violation(
                                format!("{}/escaped-panic@{}", it.name, p.site()),
                                json!({"item": it.name, "panic": p.msg, "at": p.site()}),
                            );
                        }
                    }
                    for k in std::mem::take(&mut rep.required_here) {
                        if rep.classes.get(&k).copied().unwrap_or(0) == 0 {
                            rep.missing_here.push(format!("{} (in item {})", k, it.name));
                        }
                    }
                    let dt = t0.elapsed().as_secs_f64();
                    if dt > 30.0 {
                        rep.note(format!("slow item {} {:.1}s", it.name, dt));
                    }
                    let mut m = merged.lock().unwrap();
                    m.merge(rep);
                    // keep what has been observed so far on disk once there is a violation: if another item never
                    // returns (a seeded comparison bug can make library loops spin) the runner's watchdog kills the
                    // process, and the violations observed before that must not be lost with it
                    if !m.violations.is_empty() {
                        if let Some(out) = &args.out {
                            let done = next.load(Ordering::SeqCst).min(items.len());
                            let v = json!({
                                "partial": true,
                                "items_started": done,
                                "items_total": items.len(),
                                "evaluations": m.evaluations,
                                "violations": m.violations.values().map(|v| json!({"signature": v.signature, "count": v.count, "detail": v.detail, "item": v.item})).collect::<Vec<_>>(),
                            });
                            let _ = std::fs::write(format!("{out}.partial"), serde_json::to_string(&v).unwrap_or_default());
                        }
                    }
                })
                .expect("spawn");
        }
    });
    merged.into_inner().unwrap()
}

/// Write the report where `--out` says (or stdout) and exit with 0/1/2.
pub fn finish(args: &Args, monitor: &str, rule: &str, rep: Report, t0: Instant) -> ! {
    let v = rep.to_json(args, monitor, rule, t0.elapsed().as_secs_f64());
    let s = serde_json::to_string_pretty(&v).unwrap();
    match &args.out {
        Some(p) => std::fs::write(p, s).expect("write report"),
        None => println!("{s}"),
    }
    let code = if !rep.violations.is_empty() {
        1
    } else if !rep.harness_errors.is_empty() || v["required_missing"].as_array().map(|a| !a.is_empty()).unwrap_or(false) {
        2
    } else {
        0
    };
    std::process::exit(code)
}

// ------------------------------------------------------------------------------------------------
// small helpers used by every monitor

pub fn hex_limbs(l: &[u64]) -> String {
    let mut s = String::from("0x");
    for x in l.iter().rev() {
        s.push_str(&format!("{x:016x}"));
    }
    s
}

pub fn hex_bytes(b: &[u8]) -> String {
    let mut s = String::with_capacity(b.len() * 2);
    for x in b {
        s.push_str(&format!("{x:02x}"));
    }
    s
}

/// Edge-biased 64-bit limb.
pub fn edge_limb(rng: &mut Rng) -> u64 {
    match rng.next_u32() % 12 {
        0 => 0,
        1 => u64::MAX,
        2 => 1 << 63,
        3 => (1 << 63) - 1,
        4 => 1,
        5 => u64::MAX - 1,
        6 => 1u64 << (rng.next_u32() % 64),
        7 => (1u64 << (rng.next_u32() % 64)).wrapping_sub(1),
        8 => !(1u64 << (rng.next_u32() % 64)),
        _ => rng.next_u64(),
    }
}

/// Edge-biased limb vector ("limb-spliced" distribution).
pub fn edge_limbs(rng: &mut Rng, n: usize) -> Vec<u64> {
    let mode = rng.next_u32() % 10;
    (0..n)
        .map(|i| match mode {
            0 => 0,
            1 => u64::MAX,
            2 => {
                if i == 0 {
                    edge_limb(rng)
                } else {
                    0
                }
            },
            3 => {
                if i + 1 == n {
                    edge_limb(rng)
                } else {
                    u64::MAX
                }
            },
            4 | 5 => rng.next_u64(),
            _ => edge_limb(rng),
        })
        .collect()
}
