//! Independent reference models built on arbitrary-precision integers (`num-bigint`).
//! Nothing in this crate depends on the repository under test.

pub use num_bigint::{BigInt as SInt, BigUint as UInt, Sign};
pub use num_integer::Integer;
pub use num_traits::{One, Signed, ToPrimitive, Zero};

pub mod tower;

pub fn from_limbs(l: &[u64]) -> UInt {
    let mut bytes = Vec::with_capacity(l.len() * 8);
    for x in l {
        bytes.extend_from_slice(&x.to_le_bytes());
    }
    UInt::from_bytes_le(&bytes)
}

/// Little-endian limbs, exactly `n` of them (value must fit).
pub fn to_limbs(v: &UInt, n: usize) -> Vec<u64> {
    let mut d = v.to_u64_digits();
    assert!(d.len() <= n, "to_limbs: value does not fit");
    d.resize(n, 0);
    d
}

pub fn pow2(k: usize) -> UInt {
    UInt::one() << k
}

pub fn u(x: u64) -> UInt {
    UInt::from(x)
}

/// a^-1 mod m (m > 1, gcd(a,m) = 1), by extended Euclid on signed integers.
pub fn modinv(a: &UInt, m: &UInt) -> Option<UInt> {
    let a = SInt::from(a.clone() % m);
    let mm = SInt::from(m.clone());
    let (mut r0, mut r1) = (mm.clone(), a);
    let (mut t0, mut t1) = (SInt::zero(), SInt::one());
    while !r1.is_zero() {
        let q = &r0 / &r1;
        let r2 = &r0 - &q * &r1;
        r0 = std::mem::replace(&mut r1, r2);
        let t2 = &t0 - &q * &t1;
        t0 = std::mem::replace(&mut t1, t2);
    }
    if !r0.is_one() {
        return None;
    }
    let t = ((t0 % &mm) + &mm) % &mm;
    Some(t.to_biguint().unwrap())
}

pub fn smod(a: &SInt, m: &UInt) -> UInt {
    let mm = SInt::from(m.clone());
    (((a % &mm) + &mm) % &mm).to_biguint().unwrap()
}

/// Deterministic Miller-Rabin with the first `rounds` prime bases plus a few fixed large ones.
pub fn is_probable_prime(n: &UInt, rounds: usize) -> bool {
    const SMALL: [u64; 64] = [
        2, 3, 5, 7, 11, 13, 17, 19, 23, 29, 31, 37, 41, 43, 47, 53, 59, 61, 67, 71, 73, 79, 83, 89, 97, 101, 103,
        107, 109, 113, 127, 131, 137, 139, 149, 151, 157, 163, 167, 173, 179, 181, 191, 193, 197, 199, 211, 223,
        227, 229, 233, 239, 241, 251, 257, 263, 269, 271, 277, 281, 283, 293, 307, 311,
    ];
    if n < &u(2) {
        return false;
    }
    for p in SMALL {
        let p = u(p);
        if n == &p {
            return true;
        }
        if (n % &p).is_zero() {
            return false;
        }
    }
    let one = UInt::one();
    let nm1 = n - &one;
    let s = nm1.trailing_zeros().unwrap() as usize;
    let d = &nm1 >> s;
    'outer: for a in SMALL.iter().take(rounds.min(64)) {
        let mut x = u(*a).modpow(&d, n);
        if x == one || x == nm1 {
            continue;
        }
        for _ in 1..s {
            x = (&x * &x) % n;
            if x == nm1 {
                continue 'outer;
            }
        }
        return false;
    }
    true
}

/// Trial-division + Pollard-free factorisation of small-ish numbers (for subgroup orders that are
/// products of small primes and at most one large prime cofactor). Returns distinct prime factors
/// found below `bound` and the remaining cofactor.
pub fn small_factors(mut n: UInt, bound: u64) -> (Vec<u64>, UInt) {
    let mut fs = vec![];
    let mut p = 2u64;
    while p <= bound && n > UInt::one() {
        let pp = u(p);
        if (&n % &pp).is_zero() {
            fs.push(p);
            while (&n % &pp).is_zero() {
                n /= &pp;
            }
        }
        p += if p == 2 { 1 } else { 2 };
    }
    (fs, n)
}

/// Euler criterion in Z/p: 0 for 0, 1 for squares, -1 for non-squares.
pub fn legendre(a: &UInt, p: &UInt) -> i32 {
    let a = a % p;
    if a.is_zero() {
        return 0;
    }
    let e = (p - UInt::one()) >> 1;
    if a.modpow(&e, p).is_one() {
        1
    } else {
        -1
    }
}

/// Z/pZ model.
#[derive(Clone, Debug)]
pub struct Zp {
    pub p: UInt,
}

impl Zp {
    pub fn new(p: UInt) -> Self {
        Zp { p }
    }
    pub fn red(&self, a: &UInt) -> UInt {
        a % &self.p
    }
    pub fn add(&self, a: &UInt, b: &UInt) -> UInt {
        (a + b) % &self.p
    }
    pub fn sub(&self, a: &UInt, b: &UInt) -> UInt {
        ((a + &self.p) - (b % &self.p)) % &self.p
    }
    pub fn neg(&self, a: &UInt) -> UInt {
        (&self.p - (a % &self.p)) % &self.p
    }
    pub fn mul(&self, a: &UInt, b: &UInt) -> UInt {
        (a * b) % &self.p
    }
    pub fn inv(&self, a: &UInt) -> Option<UInt> {
        if (a % &self.p).is_zero() {
            None
        } else {
            modinv(a, &self.p)
        }
    }
    pub fn pow(&self, a: &UInt, e: &UInt) -> UInt {
        a.modpow(e, &self.p)
    }
}
