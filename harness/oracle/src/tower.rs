//! Schoolbook model of a tower F_p ⊂ F_p[X1]/(X1^d1 − β1) ⊂ … . Elements are nested coefficient
//! vectors; multiplication is the O(d²) convolution followed by reduction X^d = β. No Karatsuba,
//! no special-cased non-residues, no Frobenius tables.

use crate::*;

#[derive(Clone, PartialEq, Eq, Debug, Hash)]
pub enum El {
    P(UInt),
    X(Vec<El>),
}

#[derive(Clone, Debug)]
pub struct Level {
    pub deg: usize,
    /// β, an element of the level below
    pub nonresidue: El,
}

#[derive(Clone, Debug)]
pub struct Tower {
    pub p: UInt,
    /// levels[0] is the first extension above F_p
    pub levels: Vec<Level>,
    /// frob[i] = image of the i-th flat basis element under x -> x^p (flat coordinates), lazily built
    frob: Option<Vec<Vec<UInt>>>,
}

impl Tower {
    pub fn new(p: UInt) -> Self {
        Tower { p, levels: vec![], frob: None }
    }
    /// Add a level of degree `deg` whose non-residue is given by flat base-prime-field coordinates
    /// of an element of the current top level.
    pub fn extend(mut self, deg: usize, nonresidue_flat: &[UInt]) -> Self {
        let d = self.depth();
        let nr = self.from_flat(nonresidue_flat, d);
        self.levels.push(Level { deg, nonresidue: nr });
        self.frob = None;
        self
    }
    pub fn depth(&self) -> usize {
        self.levels.len()
    }
    /// total degree over F_p at depth d
    pub fn dim(&self, d: usize) -> usize {
        self.levels[..d].iter().map(|l| l.deg).product()
    }
    pub fn zero(&self, d: usize) -> El {
        if d == 0 {
            El::P(UInt::zero())
        } else {
            El::X(vec![self.zero(d - 1); self.levels[d - 1].deg])
        }
    }
    pub fn one(&self, d: usize) -> El {
        if d == 0 {
            El::P(UInt::one())
        } else {
            let mut v = vec![self.zero(d - 1); self.levels[d - 1].deg];
            v[0] = self.one(d - 1);
            El::X(v)
        }
    }
    pub fn is_zero(&self, a: &El) -> bool {
        match a {
            El::P(x) => x.is_zero(),
            El::X(v) => v.iter().all(|e| self.is_zero(e)),
        }
    }
    pub fn from_flat(&self, f: &[UInt], d: usize) -> El {
        assert_eq!(f.len(), self.dim(d), "flat length");
        if d == 0 {
            El::P(&f[0] % &self.p)
        } else {
            let sub = self.dim(d - 1);
            El::X(f.chunks(sub).map(|c| self.from_flat(c, d - 1)).collect())
        }
    }
    pub fn to_flat(&self, a: &El) -> Vec<UInt> {
        match a {
            El::P(x) => vec![x.clone()],
            El::X(v) => v.iter().flat_map(|e| self.to_flat(e)).collect(),
        }
    }
    /// embed an element of depth `from` into depth `to` (as constant coefficient)
    pub fn embed(&self, a: &El, from: usize, to: usize) -> El {
        let mut cur = a.clone();
        for d in from..to {
            let mut v = vec![self.zero(d); self.levels[d].deg];
            v[0] = cur;
            cur = El::X(v);
        }
        cur
    }
    pub fn add(&self, a: &El, b: &El) -> El {
        match (a, b) {
            (El::P(x), El::P(y)) => El::P((x + y) % &self.p),
            (El::X(x), El::X(y)) => El::X(x.iter().zip(y).map(|(s, t)| self.add(s, t)).collect()),
            _ => panic!("tower depth mismatch"),
        }
    }
    pub fn neg(&self, a: &El) -> El {
        match a {
            El::P(x) => El::P((&self.p - x) % &self.p),
            El::X(x) => El::X(x.iter().map(|s| self.neg(s)).collect()),
        }
    }
    pub fn sub(&self, a: &El, b: &El) -> El {
        self.add(a, &self.neg(b))
    }
    fn depth_of(a: &El) -> usize {
        match a {
            El::P(_) => 0,
            El::X(v) => 1 + Self::depth_of(&v[0]),
        }
    }
    pub fn mul(&self, a: &El, b: &El) -> El {
        match (a, b) {
            (El::P(x), El::P(y)) => El::P((x * y) % &self.p),
            (El::X(x), El::X(y)) => {
                let d = Self::depth_of(a);
                let k = x.len();
                let mut c = vec![self.zero(d - 1); 2 * k - 1];
                for i in 0..k {
                    for j in 0..k {
                        let t = self.mul(&x[i], &y[j]);
                        c[i + j] = self.add(&c[i + j], &t);
                    }
                }
                let beta = &self.levels[d - 1].nonresidue;
                for i in (k..2 * k - 1).rev() {
                    let t = self.mul(beta, &c[i]);
                    c[i - k] = self.add(&c[i - k], &t);
                }
                c.truncate(k);
                El::X(c)
            },
            _ => panic!("tower depth mismatch"),
        }
    }
    pub fn pow(&self, a: &El, e: &UInt) -> El {
        let d = Self::depth_of(a);
        let mut r = self.one(d);
        let bits = e.bits();
        for i in (0..bits).rev() {
            r = self.mul(&r, &r);
            if e.bit(i) {
                r = self.mul(&r, a);
            }
        }
        r
    }
    /// multiply every flat coordinate by a prime-field scalar
    pub fn scale(&self, a: &El, s: &UInt) -> El {
        match a {
            El::P(x) => El::P((x * s) % &self.p),
            El::X(v) => El::X(v.iter().map(|e| self.scale(e, s)).collect()),
        }
    }
    /// Field size at depth d.
    pub fn order(&self, d: usize) -> UInt {
        let mut q = UInt::one();
        for _ in 0..self.dim(d) {
            q *= &self.p;
        }
        q
    }
    /// Build the matrix of x -> x^p on the flat basis of the top level using only `pow`.
    pub fn build_frobenius(&mut self) {
        let d = self.depth();
        let n = self.dim(d);
        let mut m = Vec::with_capacity(n);
        for i in 0..n {
            let mut f = vec![UInt::zero(); n];
            f[i] = UInt::one();
            let e = self.from_flat(&f, d);
            let img = self.pow(&e, &self.p.clone());
            m.push(self.to_flat(&img));
        }
        self.frob = Some(m);
    }
    /// x^(p^k) for a top-level element through the linear map (build_frobenius must have been called).
    pub fn frobenius(&self, a: &El, k: usize) -> El {
        let d = self.depth();
        let n = self.dim(d);
        let m = self.frob.as_ref().expect("build_frobenius first");
        let mut cur = self.to_flat(a);
        for _ in 0..k {
            let mut nxt = vec![UInt::zero(); n];
            for (i, ci) in cur.iter().enumerate() {
                if ci.is_zero() {
                    continue;
                }
                for j in 0..n {
                    nxt[j] = (&nxt[j] + ci * &m[i][j]) % &self.p;
                }
            }
            cur = nxt;
        }
        self.from_flat(&cur, d)
    }

    /// Relative norm of an element of depth d down to depth d-1 (closed forms for degrees 2 and 3).
    pub fn norm_down(&self, a: &El) -> El {
        let d = Self::depth_of(a);
        assert!(d >= 1);
        let beta = &self.levels[d - 1].nonresidue;
        let El::X(c) = a else { unreachable!() };
        match c.len() {
            2 => self.sub(&self.mul(&c[0], &c[0]), &self.mul(beta, &self.mul(&c[1], &c[1]))),
            3 => {
                let cube = |x: &El| self.mul(&self.mul(x, x), x);
                let o = self.one(d - 1);
                let three = self.add(&self.add(&o, &o), &o);
                self.sub(
                    &self.add(&self.add(&cube(&c[0]), &self.mul(beta, &cube(&c[1]))), &self.mul(&self.mul(beta, beta), &cube(&c[2]))),
                    &self.mul(&three, &self.mul(beta, &self.mul(&c[0], &self.mul(&c[1], &c[2])))),
                )
            },
            k => panic!("norm_down: unsupported degree {k}"),
        }
    }
    /// Quadratic character of an element of any depth: chi_{q^k}(x) = chi_p(N_{F_{q^k}/F_p}(x)).
    /// Returns 0 for zero, 1 for squares, -1 for non-squares.
    pub fn quadratic_character(&self, a: &El) -> i32 {
        let mut cur = a.clone();
        while let El::X(_) = cur {
            cur = self.norm_down(&cur);
        }
        let El::P(v) = cur else { unreachable!() };
        crate::legendre(&v, &self.p)
    }
    /// Euler criterion evaluated directly: x^((q-1)/2) in the model (slow; used to validate
    /// `quadratic_character`).
    pub fn euler_criterion(&self, a: &El) -> i32 {
        let d = Self::depth_of(a);
        if self.is_zero(a) {
            return 0;
        }
        let e = (self.order(d) - UInt::one()) >> 1usize;
        if self.pow(a, &e) == self.one(d) {
            1
        } else {
            -1
        }
    }
}
