//! Adapter instantiations for quarter 0 of the field grid (split over crates so they compile in parallel).
use fadapt::{mk, Cfg};
use std::marker::PhantomData;
pub fn fields() -> Vec<Cfg> {
    let mut v = vec![];
    macro_rules! g {
        ($name:literal, $ty:ty, $n:literal) => {
            v.push(mk(PhantomData::<$ty>, concat!("grid/", $name), $name.ends_with("/h")));
        };
    }
    cfgs::for_each_grid_field_q0!(g);
    v
}
