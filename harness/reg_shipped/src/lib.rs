//! Adapter instantiations for every prime field shipped in /repo.
use fadapt::{mk, Cfg};
use std::marker::PhantomData;
pub fn fields() -> Vec<Cfg> {
    let mut v = vec![];
    macro_rules! s {
        ($name:literal, $ty:ty) => {
            v.push(mk(PhantomData::<$ty>, $name, false));
        };
    }
    cfgs::for_each_shipped_prime_field!(s);
    v
}
