"""Per-property level texts for MANIFEST.json."""
REF = "runtime reference-model monitor"
NOT_APPLICABLE = {}
TEXT = {
    "C01": {
        "text": "Every prime-field operation and conversion is executed for 204 configurations (82 generated moduli covering 1..13 limbs, tiny, Mersenne, no-spare-bit, top-limb 2^63-1 shapes, each as derive-macro config and as hand-written config inheriting the trait's default arithmetic, plus all 40 shipped Fq/Fr) on operands injected as raw Montgomery limbs from structural, correlated (raw sum = p, >= 2^(64N), b = 1/a), limb-spliced and uniform distributions; every result must be canonical (< p) and equal the num-bigint result. Tiny fields enumerate all p^2 pairs. Per-configuration required observation classes (carry out of the top limb on no-spare-bit moduli, several sum_of_products chunks, rejected integers >= p, ...) make a run that missed a mechanism inconclusive.",
        "design_ref": "DESIGN.md §4 C01",
        "note": "num-bigint is the trusted oracle; operands are sampled except on tiny fields; asm feature and padded limb counts are out of scope of this check (see DESIGN §7).",
        "technique": REF + " (num-bigint oracle on raw Montgomery limbs, panic capture)",
    },
    "C02": {
        "text": "All 27 shipped towers (Fp2, Fp3, Fp4, both Fp6 constructions, Fp12) and four toy towers are executed on elements from structural classes (zero, one, base-field and subfield elements, single non-zero coordinate at every position, all coordinates p-1, uniform) and every result is compared coordinate-wise with a schoolbook model of F_p[X]/(X^k - beta) over num-bigint: add/sub/mul/square/inverse/div, frobenius_map(k) for k up to 2*degree+1 against x^(p^k) (linear map built from model exponentiation), norm, multiplication by base-field elements, all sparse multiplications (mul_by_034/014/01/1/fp/fp2) against full multiplication by the embedded sparse element, sum_of_products, and cyclotomic square/inverse/exp against the generic operations on elements forced into the cyclotomic subgroup by the oracle. Toy towers (7^2, 17^2, 7^3, 13^3 elements) enumerate all ordered pairs.",
        "design_ref": "DESIGN.md §4 C02",
        "note": "trusted: num-bigint and the 120-line schoolbook tower model; prime-field conversions (C01). Sampled except toy towers.",
        "technique": REF + " (schoolbook tower model over num-bigint)",
    },
    "C03": {
        "text": "Eleven toy curves (short Weierstrass with a = 0 / a != 0, cofactor 1, 2, 3, 4 incl. 2-torsion points, over F_p and over F_{17^2}; twisted Edwards complete with cofactor 4 and 8, and one with an incomplete law) are enumerated oracle-side and ALL ordered pairs of points are pushed through every operator form (proj/affine add, sub, mixed, +=, double, neg, Sum, conversions, normalize_batch, cross-type ==) in Z=1, randomly rescaled and non-canonical-identity representations; results are decoded from raw X,Y,Z / X,Y,T,Z by the oracle and compared with the textbook affine law computed in plain u64 arithmetic. All 47 shipped SW/TE configurations are sampled over relation classes (P=Q, P=-Q, identity, points outside the subgroup, 2-torsion) against the same law over C01/C02-checked field operations.",
        "design_ref": "DESIGN.md §4 C03",
        "note": "exhaustive only on the toy curves (listed in the evidence); shipped curves are sampled. Trusted: the 60-line textbook law and u64 arithmetic.",
        "technique": REF + " (textbook affine group law; exhaustive on toy curves)",
    },
    "C04": {
        "text": "Every scalar-multiplication path (Affine/Projective::mul_bigint, mul_bits_be, * and *= ScalarField, sw_double_and_add_*, config-level mul_affine/mul_projective, WnafContext for w = 2..10 with fresh/exact/oversized/undersized tables, BatchMulPreprocessing with table hints 0..2^16 and scalar sizes bits..64N, batch_mul, and for the 11 shipped GLV configurations scalar_decomposition identity + size bound, endomorphism eigenvalue, glv_mul_projective/affine) is compared with a reference MSB-first double-and-add over the textbook affine law. Toy curves: every point x k in [0,3r] (quick: every 7th plus structural) encoded with 1..3 limbs; shipped curves: k in {0,1,2,r-1,(r±1)/2,r,r+1,2^j,2^j-1,all-ones limbs,lambda±1,lattice entries,uniform,>= r,leading zero limbs} on identity/generator/random/-P.",
        "design_ref": "DESIGN.md §4 C04",
        "note": "subgroup points for projective paths (see assumptions); sampled on shipped curves.",
        "technique": REF + " (reference double-and-add over the textbook law)",
    },
    "C05": {
        "text": "msm, msm_unchecked, msm_bigint, msm_chunks and (through the verif-hooks feature) the private plain-bucket and signed-digit kernels are run on 11 toy curves, 9 shipped curve groups and 3 pairing target groups for lengths 0,1,2,3,31,32,33,63,64,65,127,128,129,1000 (thorough: 4096, 16384), scalar patterns (all 0 / 1 / r-1, alternating, top-window carry, raw integers in [r,2^bits), uniform) and base patterns (all equal, identity entries, P/-P); mismatched lengths must be reported (checked) or truncated (unchecked). ChunkedPippenger and HashMapPippenger are driven with random add*/finalize histories and buffer sizes 1..n+1 against a running-sum model with required classes (flush inside add, finalize on empty/non-empty buffer, merged repeated base). make_digits is checked for w = 1..16 (reconstruction, digit range, digit count).",
        "design_ref": "DESIGN.md §4 C05",
        "note": "histories are sequential (the accumulators have no concurrency); shapes sampled.",
        "technique": REF + " (naive-sum model; history + executable model for the accumulators; hook-exposed kernels)",
    },
    "C06": {
        "text": "Every shipped pairing engine - BLS12 with M- and D-twist, BN, BW6 x2, MNT4 x2, MNT6 x2, test-curves BLS12-381, plus cp6_782's own engine - is run on generator, random-subgroup and identity points with scalars from {0,1,2,r-1,uniform}. Bilinearity, additivity in both arguments, non-degeneracy, e(.,0)=e(0,.)=1, output^r=1, prepared versus unprepared across nine input forms, and multi-pairings of lengths 0,1,2,3,4,5,8,9 with identity entries at every position are checked as target-group equalities whose right-hand sides come from different code than the left (Field::pow and a harness square-and-multiply with integer exponents from num-bigint, field mul for products, oracle-side 1 for identity arguments; no golden values). PairingOutput group operations and Valid/serialization are compared with target-field operations. Required observation classes (each engine and twist type, identity in G1/G2/both, a*b >= r, chunking remainder, identity inside a multi-pairing) make an empty run inconclusive.",
        "design_ref": "DESIGN.md §4 C06",
        "note": "relations only (no golden pairing values): a defect that keeps every checked relation intact (e.g. a consistent change of the pairing by an automorphism) is not observable; inputs sampled.",
        "technique": REF + " (algebraic relations with independently computed right-hand sides)",
    },
    "C07": {
        "text": "Every constructible radix-2, mixed-radix and general domain of 16 fields (two-adicity 2..47, q in {3,5,7}) up to 2^11 (thorough 2^14) elements is transformed for input lengths on both sides of the degree-aware threshold, with subgroup and four kinds of coset offsets; transforms are compared with Horner evaluation at offset*g^i, inverse transforms by re-evaluation, group-valued coefficients included. Construction is compared with a brute-force minimal size for every request 0..1100 and around every family size; the generator order is checked exactly; element/elements/vanishing/Lagrange/filter/reindex are compared with their product-formula definitions, also at points of the domain.",
        "design_ref": "DESIGN.md §4 C07",
        "note": "oracles: Horner / naive products over C01-checked field ops, written without ark-poly. Sizes bounded as stated.",
        "technique": REF + " (Horner / O(n^2) naive oracles)",
    },
    "C08": {
        "text": "Every dense, sparse, mixed and evaluation-form operator is run on operand pairs from relation classes (equal, negated, cancelling leading terms, zero, constants, sparse above/below/equal the dense degree, longer than the domain) over 7 fields; results are compared coefficient-wise with schoolbook arithmetic and long division on canonical vectors, and checked for canonical form, degree() totality and == with the canonical model. 32 required observation classes cover cancellation in each of the 13 additive operators, f = 0/1 in scaled add, coset vanishing-polynomial operations and the dividend-length classes.",
        "design_ref": "DESIGN.md §4 C08",
        "note": "oracle: schoolbook polynomial arithmetic in the harness; sampled.",
        "technique": REF + " (schoolbook polynomial model, structural + semantic checks)",
    },
    "C11": {
        "text": "(field part, mon_ff) sqrt and legendre are executed for all 204 prime-field configurations (tiny ones exhaustively) and for every shipped extension with a square-root algorithm (6 Fp2, 2 Fp4, 6 Fp3, 5 Fp6 2-over-3) plus four toy towers exhaustively. Elements: 0, 1, -1, generator^odd, squares, manufactured non-residues, base-field and subfield elements by residuosity, and elements of exact order 2^j for every j up to the two-adicity (Tonelli-Shanks worst cases). Oracle: Euler criterion by num-bigint modpow (towers: quadratic character of the norm chain, itself cross-checked against x^((q-1)/2) in the schoolbook model) and squaring of the returned root in the model; Some/None must match residuosity exactly and sqrt(0)=0. (curve part, mon_ec) get_ys_from_x_unchecked / get_xs_from_y_unchecked / get_point_from_*_unchecked are run on every field element of the 11 toy curves (solutions enumerated oracle-side) and on structural + uniform coordinates of the 47 shipped curves: both solutions, negatives of each other, smaller first in the documented order, None exactly when no solution exists.",
        "design_ref": "DESIGN.md §4 C11",
        "note": "trusted: num-bigint, the schoolbook tower model; sampled except tiny fields/toy towers.",
        "technique": REF + " (Euler-criterion oracle, root squared in the model)",
    },
    "C12": {
        "text": "For all 47 shipped curve configurations and the toy curves (every point), points of E(F_q) generated from arbitrary x / y coordinates without cofactor clearing (so mostly outside the subgroup when h > 1; a per-curve requirement of > 30% outside points for cofactor > 1 short-Weierstrass curves), small-order points r*T, sums subgroup+torsion, the identity and subgroup points are pushed through is_in_correct_subgroup_assuming_on_curve (must equal r*P = O by the textbook law, including the endomorphism-based tests of bls12_381 g1/g2, bn254 g2, test-curves g2), clear_cofactor (result in the subgroup and equal to [h_eff]*P, homomorphism), mul_by_cofactor(_to_group), mul_by_cofactor_inv (inverse on the subgroup) and UniformRand (samples in the subgroup).",
        "design_ref": "DESIGN.md §4 C12",
        "note": "sampled on shipped curves, exhaustive on toy curves; reference multiplications by r are the dominating cost (12 points per curve in the quick tier).",
        "technique": REF + " (definition r*P = O / [h_eff]*P with the textbook law)",
    },
    "C13": {
        "text": "The real DefaultFieldHasher, SWUMap, WBMap, Elligator2Map and MapToCurveBasedHasher are run on ~16 000 (quick) / ~157 000 (thorough) events: messages and tags (tags longer than 255 bytes, every output length up to the 255*b_len limit, block-boundary message lengths), seven hash functions, ten suites/configurations (BLS12-381 G1/G2 from both crates, BLS12-377 G1/G2, bandersnatch Elligator2, three toy configurations enumerated over the whole field), structural, crafted and uniform field elements (u = 0, zeros of Z^2u^4+Zu^2, g(x1) = 0, rational isogeny-kernel points solved for offline). Every result is checked in-process (on curve, sgn0 rule, r*P = 0, determinism, totality) and recomputed stage by stage by an independent RFC 9380 implementation in Python (hashlib + integers) over the recorded event log; that reference first validates itself against the published RFC vectors on every run.",
        "design_ref": "DESIGN.md §4 C13",
        "note": "trusted: Python hashlib/ints reference (self-validated against RFC vectors each run); isogeny/curve constants are exported from the repository (C16 checks their defining equations). Sampled except toy configurations.",
        "technique": REF + " + offline checker over the recorded event log (independent RFC 9380 implementation)",
    },
    "C19": {
        "text": "Pools in which every mathematical object occurs several times through different histories are built for BigInt<N>, all 204 prime-field configurations, 28 towers, all 47 shipped curves (projective rescalings, affine vs projective, P+Q-Q, k*P through five paths, non-canonical identities), every point of the toy curves, pairing outputs of five engines (e(aP,Q), e(P,aQ), e(P,Q)^a) and dense/sparse polynomials (operator sequences, conversions); all pairs of each pool are checked: == in both directions and across affine/projective agrees with oracle identity, equal objects hash equally, cmp/partial_cmp are antisymmetric, agree with == and equal the integer order (prime fields, BigInt) or the documented lexicographic order (extensions), transitivity on random triples, sort() equals the oracle order, HashSet/BTreeSet/HashMap keyed by the values have the cardinality of the set of mathematical objects, and is_zero/is_one agree with comparison against the constants.",
        "design_ref": "DESIGN.md §4 C19",
        "note": "pools are sampled (toy curves: all points); identity decided by the oracle models.",
        "technique": REF + " (all-pairs pool comparison against oracle identity and order)",
    },
    "C17": {
        "text": "Dense and sparse multilinear extensions on 0..8 (thorough 12) variables are compared with the direct sum over the hypercube at every Boolean point (n <= 6) and at non-Boolean points; fix_variables for every k, every valid relabel window, concatenation and all operators are compared with the transformation applied to the plain table; dense and sparse forms are cross-compared. Sparse multivariate polynomials built from term lists with duplicates, zero coefficients and unordered or repeated variables are compared with a map-of-monomials model (canonical form, degree, values, operators); SparseTerm ordering is checked to be the documented total order on all triples of a 60-term pool.",
        "design_ref": "DESIGN.md §4 C17",
        "note": "oracle: hypercube sums and index-bit manipulation on plain vectors; sampled tables/points, all windows.",
        "technique": REF + " (sum-over-hypercube / map-of-monomials models)",
    },
    "C14": {
        "text": "The same monitor binary is built twice: against the serial library (no parallel feature) it writes a digest of the canonical serialization of every (operation, input shape) output; against the library with every crate's parallel feature on it recomputes each output inside rayon pools of 9 (thorough 15) sizes - including non-powers of two and sizes larger than the input - for several repetitions alternating with a background CPU hog, and compares digests. Operations are all parallel code paths: radix-2 / mixed-radix / general FFT, IFFT and coset transforms up to 2^13 (2^15), distribute_powers across the 1024*t threshold, DensePolynomial::evaluate across 16*t, dense/sparse/evaluation operators, batch inversion, MSM (all entry points and the hook kernel), BatchMulPreprocessing, normalize_batch, multi-pairings (BLS12 chunks of 4, MNT4, BW6), Valid::batch_check incl. a batch with one bad element, checked Vec<G> deserialization, multilinear and multivariate evaluation.",
        "design_ref": "DESIGN.md §4 C14",
        "note": "schedule coverage is by perturbation, not enumeration; interleavings inside rayon are not observable. Serial outputs are taken as reference.",
        "technique": "cross-build differential runtime monitor (serial vs parallel build, thread-pool sweep, scheduling perturbation)",
    },
    "C15": {
        "text": "Every BigInt<N> operation (N=1..13) is executed on edge-biased and uniform operands and compared with num-bigint, including carry/borrow flags, all shift classes, both endiannesses, parsing/printing and the three signed-digit recodings (reconstruction + digit constraints); recodings are exhaustive over 0..2^16 and the mirrored top-of-range values. Held-on-observed-executions, with required observation classes (carry out of the top limb etc.) that make an empty run inconclusive.",
        "design_ref": "DESIGN.md §4 C15",
        "note": "num-bigint is the trusted oracle; 64-bit x86 target only; inputs are sampled except where stated exhaustive.",
        "technique": REF + " (num-bigint oracle, panic capture)",
    },
    "C16": {
        "text": "All 134 shipped configurations (40 prime fields, 31 tower levels incl. 4 toy towers, 52 curves, 11 GLV, 11 pairing and 7 hash-to-curve parameter sets of test-curves and the 27 curves/* crates) are read through the public traits and ~2500 table-driven obligations - one per declared or derived constant or defining equation - are recomputed independently with num-bigint, a schoolbook tower model and textbook affine curve arithmetic over that model (Miller-Rabin primality, R/R2/INV, exact orders of roots of unity incl. get_root_of_unity for every size, every Frobenius table entry, r*G = 0, Hasse, COFACTOR*r on random curve points, cofactor inverses, GLV lattice, family polynomials, loop counts, final-exponent identities, twists, isogeny homomorphism). The set of obligations is enumerated completely in both tiers; the thorough tier only adds random points and pairs.",
        "design_ref": "DESIGN.md §4 C16",
        "note": "primality is probabilistic; large group orders are not point-counted; conventions taken from the code's comments are listed in the evidence notes.",
        "technique": REF + " (independent recomputation of every constant / defining equation at run time)",
    },
    "C20": {
        "text": "A committed grid of 5179 literals (MontFp!, BigInt!, const Fp::new) over 20 moduli with N = 1..13 limbs - every accepted radix prefix, minus sign, leading zeros, values 0, p-1, >= p up to 2^(64N)-1 and limb-boundary values - is compiled into the monitor and each constant is compared at run time with the Python-computed value, an independent parse of its text and the run-time constructors; octal/binary literals are additionally expanded in a run-time context so mis-read radices surface as violations. Derive-macro products (limb count, modulus limbs, generator, 2-adic and large-subgroup roots, R, R2, INV) of 164 grid configurations, 7 small-subgroup fields and 40 shipped fields are recomputed with num-bigint. The grid is a fixed, completely enumerated sub-space (exhaustive over the grid, not over all strings). In addition (a) `lit_probe` is built and run once per class - each literal syntax class, `derive_small_subgroup` (subgroups 3^21, 3^41, 5^28 > 2^32 / 2^64) and `const_ctor` - so that a class that stops compiling is a localised violation; (b) the const constructors Fp::new / Fp::from_sign_and_limbs, being const fn, are driven at run time on all 204 prime-field configurations (and on 13 probe fields independent of the curve crates) with structural, edge-biased and oracle-crafted integers (Montgomery form / pre-subtraction value sharing limbs with p) and compared with the integer mod p.",
        "design_ref": "DESIGN.md §4 C20",
        "note": "compile-time evaluation observed at run time; literals that do not fit are documented compile errors and are not generated.",
        "technique": REF + " (compile-time constants compared at run time with Python-generated expectations; per-class compile probes; const constructors executed at run time against num-bigint)",
    },
    "C09": {
        "text": "Every field configuration (184 generated grid fields with 0-7 spare top bits and flag-spill cases, 40 shipped prime fields, 27 shipped towers, 4 toy towers), Affine and Projective with Z != 1 of 45 shipped SW/TE curve configs including bls12_381's zcash format, every point of 11 toy curves, and PairingOutput of 4 engines are serialized in both compression modes and through serialize_with_flags with Empty/SW/TE flags. Bytes are compared with an oracle encoder that works from integer values only (LE integer in ceil((bits+flags)/8) bytes, flags in the top bits, SW/TE/zcash point layouts, documented lexicographic sign rule); serialized_size is compared with the bytes written; round trips are checked in validated and unchecked modes on raw Montgomery limbs. Field-encoding uniqueness is decided by offering p, p+1, 2^bits-1, every unused high bit, every flag pattern, 0xFF.., uniform strings, and all 1-2-byte strings of tiny fields, and requiring that accepted strings re-serialize identically.",
        "design_ref": "DESIGN.md §4 C09",
        "note": "sampled except where the evidence says exhaustive; 20 required observation classes; both API spellings (mode-taking methods and serialize_compressed / uncompressed_size / deserialize_*_unchecked wrappers) under the same oracles; thorough also runs the plain-release (`rel`) build and a Miri slice.",
        "technique": REF + " (oracle-side expected encodings, counting writer)",
    },
    "C10": {
        "text": "For 45 shipped curve configs x 2 modes x {validate, unchecked} x {Affine, Projective}, the 11 toy curves (all 2^8/2^16 byte strings; 2^24 in thorough, with an oracle accept/reject table from u64 point enumeration), all field types, and PairingOutput of 4 engines, deserialization is fed valid, uniform, bit-flipped (every bit of the flag byte), truncated (every length), extended, rootless, off-curve, out-of-subgroup (unchecked lifts and small-order r*T on every cofactor > 1 curve), conflicting-flag and infinity-with-payload inputs. Panics are caught, reads are bounded by a counting reader, every point accepted with validation is re-checked by the curve equation in plain field operations and r*P = 0 by a harness double-and-add, accepted field elements are decoded from raw limbs and compared with p, and the flag decoders are checked on all 256 bytes.",
        "design_ref": "DESIGN.md §4 C10",
        "note": "runs in the `mon` profile; thorough adds the plain-release (`rel`) build and a Miri slice (`cargo +nightly miri run`, `--miri-slice`: N <= 2 fields, toy curves, containers; Undefined Behavior reports are violations). Both API spellings (mode-taking methods and the convenience wrappers deserialize_compressed[_unchecked] / deserialize_uncompressed[_unchecked]) are driven under the same oracles.",
        "technique": REF + " (hostile byte strings, panic capture, counting reader, oracle re-validation of accepted values)",
    },
    "C18": {
        "text": "94 concrete composite types (primitives, Option, tuples, arrays, Vec/VecDeque/LinkedList, String, BTreeMap/BTreeSet, BigUint, BigInt<N>, Arc, Cow, PhantomData, the four mode-pinning wrappers over a curve point, and seven derive structs including nested-tuple and generic ones, nesting <= 5) are generated recursively and checked for round-trip equality, serialized_size equal to bytes written in both modes, and equality with an independent encoder that localises mismatches to the innermost node; serialize-only Rc/&/&mut/&[T] are covered too. Malformed input - every truncation, bool bytes 2..255, invalid UTF-8, length prefixes n+1 .. u64::MAX at every nesting level, bit flips, uniform bytes - must yield Err with no panic and a largest single allocation <= 64*len + 1 MiB; the dangerous cases run in a re-executed child under RLIMIT_AS 4 GiB, and an abort of the child is a violation.",
        "design_ref": "DESIGN.md §4 C18",
        "note": "allocation monitor = #[global_allocator] wrapper inside mon_ser; child processes for cases that could abort; VecDeque values are built through every ring-buffer history (wrapped layouts are a required class); both API spellings; thorough adds the `rel` build and a Miri slice.",
        "technique": REF + " (independent encoder, allocation monitor, fault injection by malformed input in a sandboxed child)",
    },
}
