"""Per-property level texts for MANIFEST.json."""
REF = "runtime reference-model monitor"
NOT_APPLICABLE = {}
TEXT = {
    "C01": {
        "text": "Every prime-field operation and conversion is executed for 204 configurations (82 generated moduli covering 1..13 limbs, tiny, Mersenne, no-spare-bit, top-limb 2^63-1 shapes, each as derive-macro config and as hand-written config inheriting the trait's default arithmetic, plus all 40 shipped Fq/Fr) on operands injected as raw Montgomery limbs from structural, correlated (raw sum = p, >= 2^(64N), b = 1/a), limb-spliced and uniform distributions; every result must be canonical (< p) and equal the num-bigint result. Tiny fields enumerate all p^2 pairs. Per-configuration required observation classes (carry out of the top limb on no-spare-bit moduli, several sum_of_products chunks, rejected integers >= p, ...) make a run that missed a mechanism inconclusive.",
        "design_ref": "DESIGN.md §4 C01",
        "note": "num-bigint is the trusted oracle; operands are sampled except on tiny fields; asm feature and padded limb counts are out of scope of this check (see DESIGN §7).",
        "technique": REF + " (num-bigint oracle on raw Montgomery limbs, panic capture)",
    },
    "C02": {
        "text": "All 27 shipped towers (Fp2, Fp3, Fp4, both Fp6 constructions, Fp12) and four toy towers are executed on elements from structural classes (zero, one, base-field and subfield elements, single non-zero coordinate at every position, all coordinates p-1, uniform) and every result is compared coordinate-wise with a schoolbook model of F_p[X]/(X^k - beta) over num-bigint: add/sub/mul/square/inverse/div, frobenius_map(k) for k up to 2*degree+1 against x^(p^k) (linear map built from model exponentiation), norm, multiplication by base-field elements, all sparse multiplications (mul_by_034/014/01/1/fp/fp2) against full multiplication by the embedded sparse element, sum_of_products, and cyclotomic square/inverse/exp against the generic operations on elements forced into the cyclotomic subgroup by the oracle. Toy towers (7^2, 17^2, 7^3, 13^3 elements) enumerate all ordered pairs.",
        "design_ref": "DESIGN.md §4 C02",
        "note": "trusted: num-bigint and the 120-line schoolbook tower model; prime-field conversions (C01). Sampled except toy towers.",
        "technique": REF + " (schoolbook tower model over num-bigint)",
    },
    "C06": {
        "text": "Every shipped pairing engine - BLS12 with M- and D-twist, BN, BW6 x2, MNT4 x2, MNT6 x2, test-curves BLS12-381, plus cp6_782's own engine - is run on generator, random-subgroup and identity points with scalars from {0,1,2,r-1,uniform}. Bilinearity, additivity in both arguments, non-degeneracy, e(.,0)=e(0,.)=1, output^r=1, prepared versus unprepared across nine input forms, and multi-pairings of lengths 0,1,2,3,4,5,8,9 with identity entries at every position are checked as target-group equalities whose right-hand sides come from different code than the left (Field::pow and a harness square-and-multiply with integer exponents from num-bigint, field mul for products, oracle-side 1 for identity arguments; no golden values). PairingOutput group operations and Valid/serialization are compared with target-field operations. Required observation classes (each engine and twist type, identity in G1/G2/both, a*b >= r, chunking remainder, identity inside a multi-pairing) make an empty run inconclusive.",
        "design_ref": "DESIGN.md §4 C06",
        "note": "relations only (no golden pairing values): a defect that keeps every checked relation intact (e.g. a consistent change of the pairing by an automorphism) is not observable; inputs sampled.",
        "technique": REF + " (algebraic relations with independently computed right-hand sides)",
    },
    "C11": {
        "text": "sqrt and legendre are executed for all 204 prime-field configurations (tiny ones exhaustively) and for every shipped extension with a square-root algorithm (6 Fp2, 2 Fp4, 6 Fp3, 5 Fp6 2-over-3) plus four toy towers exhaustively. Elements: 0, 1, -1, generator^odd, squares, manufactured non-residues, base-field and subfield elements by residuosity, and elements of exact order 2^j for every j up to the two-adicity (Tonelli-Shanks worst cases). Oracle: Euler criterion by num-bigint modpow (towers: quadratic character of the norm chain, itself cross-checked against x^((q-1)/2) in the schoolbook model) and squaring of the returned root in the model; Some/None must match residuosity exactly and sqrt(0)=0.",
        "design_ref": "DESIGN.md §4 C11",
        "note": "trusted: num-bigint, the schoolbook tower model; sampled except tiny fields/toy towers.",
        "technique": REF + " (Euler-criterion oracle, root squared in the model)",
    },
    "C15": {
        "text": "Every BigInt<N> operation (N=1..13) is executed on edge-biased and uniform operands and compared with num-bigint, including carry/borrow flags, all shift classes, both endiannesses, parsing/printing and the three signed-digit recodings (reconstruction + digit constraints); recodings are exhaustive over 0..2^16 and the mirrored top-of-range values. Held-on-observed-executions, with required observation classes (carry out of the top limb etc.) that make an empty run inconclusive.",
        "design_ref": "DESIGN.md §4 C15",
        "note": "num-bigint is the trusted oracle; 64-bit x86 target only; inputs are sampled except where stated exhaustive.",
        "technique": REF + " (num-bigint oracle, panic capture)",
    },
}
