"""Per-property level texts for MANIFEST.json."""
REF = "runtime reference-model monitor"
NOT_APPLICABLE = {}
TEXT = {
    "C15": {
        "text": "Every BigInt<N> operation (N=1..13) is executed on edge-biased and uniform operands and compared with num-bigint, including carry/borrow flags, all shift classes, both endiannesses, parsing/printing and the three signed-digit recodings (reconstruction + digit constraints); recodings are exhaustive over 0..2^16 and the mirrored top-of-range values. Held-on-observed-executions, with required observation classes (carry out of the top limb etc.) that make an empty run inconclusive.",
        "design_ref": "DESIGN.md §4 C15",
        "note": "num-bigint is the trusted oracle; 64-bit x86 target only; inputs are sampled except where stated exhaustive.",
        "technique": REF + " (num-bigint oracle, panic capture)",
    },
}
