"""Per-property level texts for MANIFEST.json."""
REF = "runtime reference-model monitor"
NOT_APPLICABLE = {}
TEXT = {
    "C01": {
        "text": "Every prime-field operation and conversion is executed for 204 configurations (82 generated moduli covering 1..13 limbs, tiny, Mersenne, no-spare-bit, top-limb 2^63-1 shapes, each as derive-macro config and as hand-written config inheriting the trait's default arithmetic, plus all 40 shipped Fq/Fr) on operands injected as raw Montgomery limbs from structural, correlated (raw sum = p, >= 2^(64N), b = 1/a), limb-spliced and uniform distributions; every result must be canonical (< p) and equal the num-bigint result. Tiny fields enumerate all p^2 pairs. Per-configuration required observation classes (carry out of the top limb on no-spare-bit moduli, several sum_of_products chunks, rejected integers >= p, ...) make a run that missed a mechanism inconclusive.",
        "design_ref": "DESIGN.md §4 C01",
        "note": "num-bigint is the trusted oracle; operands are sampled except on tiny fields; asm feature and padded limb counts are out of scope of this check (see DESIGN §7).",
        "technique": REF + " (num-bigint oracle on raw Montgomery limbs, panic capture)",
    },
    "C15": {
        "text": "Every BigInt<N> operation (N=1..13) is executed on edge-biased and uniform operands and compared with num-bigint, including carry/borrow flags, all shift classes, both endiannesses, parsing/printing and the three signed-digit recodings (reconstruction + digit constraints); recodings are exhaustive over 0..2^16 and the mirrored top-of-range values. Held-on-observed-executions, with required observation classes (carry out of the top limb etc.) that make an empty run inconclusive.",
        "design_ref": "DESIGN.md §4 C15",
        "note": "num-bigint is the trusted oracle; 64-bit x86 target only; inputs are sampled except where stated exhaustive.",
        "technique": REF + " (num-bigint oracle, panic capture)",
    },
}
