#!/usr/bin/env python3
"""Offline checker for property C13: re-derives every value recorded by the mon_h2c monitor with the
independent RFC 9380 implementation in rfc9380.py.

usage: python3 check_h2c.py <monitor report.json> [--tier quick|thorough] [--jobs N] [--events FILE]
writes <report.json>.post.json (same format as a monitor report); exit 0 = no violation, 1 = violations.
"""
import hashlib
import json
import multiprocessing as mp
import os
import sys
import time

sys.path.insert(0, os.path.dirname(os.path.abspath(__file__)))
import rfc9380 as R  # noqa: E402

RULE = ("every event of the monitor's log is recomputed by an independent Python implementation of RFC 9380 "
        "(hashlib + integers): hash_to_field events -> expand_message_xmd (incl. oversize DST) + reduction mod p; "
        "map events -> simplified SWU / isogeny map / Elligator 2 + rational map; hash events -> stage by stage "
        "(u from (msg, DST); Q_i from the recorded u_i; P = h_eff * (Q_0 + Q_1) from the recorded Q_i, affine "
        "chord-and-tangent arithmetic) so that one defective stage does not mask the others; every event is "
        "non-trivial; distinct = distinct (kind, configuration, inputs)")

REQUIRED = [
    "py: oversize DST (> 255 bytes)", "py: empty message", "py: message shorter than the hash block",
    "py: message longer than the hash block", "py: ell > 1", "py: u = 0", "py: exceptional SWU denominator",
    "py: gx1 square", "py: gx1 non-square", "py: sign flip applied (sgn0(sqrt) != sgn0(u), y negated)",
]

MAX_SIGNATURES = 40
SUITE_PRM = {}
SUITES = {}


def suite(name):
    s = SUITES.get(name)
    if s is None:
        s = SUITES[name] = R.Suite(SUITE_PRM[name])
    return s


class Out:
    def __init__(self):
        self.evaluations = 0
        self.digests = set()
        self.classes = {}
        self.ops = {}
        self.configs = set()
        self.violations = {}
        self.harness_errors = []
        self.samples = {}

    def cls(self, name, cond=True):
        if cond:
            self.classes[name] = self.classes.get(name, 0) + 1

    def op(self, name):
        self.ops[name] = self.ops.get(name, 0) + 1

    def ev(self, key):
        self.evaluations += 1
        self.digests.add(hashlib.blake2b(key.encode(), digest_size=8).digest())

    def violation(self, sig, detail, item):
        v = self.violations.get(sig)
        if v:
            v["count"] += 1
            if len(json.dumps(detail)) < len(json.dumps(v["detail"])):   # keep the smallest witness
                v["detail"], v["item"] = detail, item
        elif len(self.violations) < MAX_SIGNATURES:
            self.violations[sig] = {"signature": sig, "count": 1, "detail": detail, "item": item}

    def sample(self, key, v):
        if key not in self.samples and len(self.samples) < 12:
            self.samples[key] = v

    def merge(self, o):
        self.evaluations += o.evaluations
        self.digests |= o.digests
        for k, v in o.classes.items():
            self.classes[k] = self.classes.get(k, 0) + v
        for k, v in o.ops.items():
            self.ops[k] = self.ops.get(k, 0) + v
        self.configs |= o.configs
        for k, v in o.violations.items():
            if k in self.violations:
                mine = self.violations[k]
                mine["count"] += v["count"]
                if len(json.dumps(v["detail"])) < len(json.dumps(mine["detail"])):
                    mine["detail"], mine["item"] = v["detail"], v["item"]
            elif len(self.violations) < MAX_SIGNATURES:
                self.violations[k] = v
        self.harness_errors += o.harness_errors
        for k, v in o.samples.items():
            self.sample(k, v)


def norm_u(u, m):
    """event encoding -> list of tuples of ints"""
    if m == 1:
        return [(int(x),) if not isinstance(x, list) else (int(x[0]),) for x in u]
    return [tuple(int(c) for c in x) for x in u]


def pstr(F, P):
    if P is None:
        return "identity"
    if P == "missing":
        return "missing"
    return {"x": [str(c) for c in F.coords(P[0])], "y": [str(c) for c in F.coords(P[1])]}


def msg_classes(out, msg, dst, hname):
    s = R.HASHES[hname][2]
    out.cls("py: oversize DST (> 255 bytes)", len(dst) > 255)
    out.cls("py: empty message", len(msg) == 0)
    out.cls("py: message shorter than the hash block", 0 < len(msg) < s)
    out.cls("py: message longer than the hash block", len(msg) > s)
    out.cls("py: message length = block size - 1 / block size / block size + 1", len(msg) in (s - 1, s, s + 1))


def check_u(out, ev, label, msg, dst, hname, p, m, k, count, u_rec, generic_sig):
    """hash_to_field stage; returns True if the recorded u equals the RFC value"""
    try:
        ref = R.hash_to_field(msg, count, dst, p, m, k, hname)
    except R.Abort:
        out.violation("h2c/expand_message_xmd/over-limit/no-abort",
                      {"config": label, "count": count, "msg": ev["msg"], "dst": ev["dst"],
                       "expected": "abort (ell > 255 or len_in_bytes > 65535)"}, ev.get("item", ""))
        return False
    if ref == u_rec:
        return True
    L = R.L_of(p, k)
    s = R.HASHES[hname][2]
    bad = next(i for i in range(count) if ref[i] != u_rec[i])
    detail = {"config": label, "hash": hname, "p": str(p), "m": m, "k": k, "L": L, "s_in_bytes": s, "count": count,
              "msg": ev["msg"], "dst": ev["dst"], "first_bad_index": bad,
              "expected": [str(c) for c in ref[bad]], "got": [str(c) for c in u_rec[bad]]}
    if L != s and L <= 256:
        alt = R.hash_to_field(msg, count, dst, p, m, k, hname, z_pad_len=L)
        if alt == u_rec:
            detail["diagnosis"] = ("output equals expand_message_xmd computed with Z_pad = I2OSP(0, L) (L = bytes per field "
                                   "element) instead of I2OSP(0, s_in_bytes) (input block size of the hash), RFC 9380 5.3.1 step 6")
            out.violation("h2c/expand_message_xmd/z_pad-length", detail, ev.get("item", ""))
            out.cls("py: matches RFC only with Z_pad length L instead of s_in_bytes")
            return False
    out.violation(generic_sig, detail, ev.get("item", ""))
    return False


def check_h2f(out, ev):
    fd = ev["field"]
    p, m, k, count, hname = int(fd["p"]), int(fd["m"]), int(ev["k"]), int(ev["count"]), ev["hash"]
    msg, dst = bytes.fromhex(ev["msg"]), bytes.fromhex(ev["dst"])
    label = f"{hname}:{ev['fname']}:k={k}"
    out.ev(f"h2f|{label}|{count}|{ev['msg']}|{ev['dst']}")
    out.op("py: hash_to_field")
    out.configs.add("py-h2f:" + label)
    b = R.HASHES[hname][1]
    n = count * m * R.L_of(p, k)
    msg_classes(out, msg, dst, hname)
    out.cls("py: ell > 1", n > b)
    out.cls("py: ell = 255", -(-n // b) == 255)
    out.cls("py: requested length not a multiple of b_len", n % b != 0)
    out.cls("py: extension field m > 1", m > 1)
    u_rec = norm_u(ev["u"], m)
    if len(u_rec) != count:
        out.harness_errors.append(f"h2f event with {len(u_rec)} elements, count {count}")
        return
    # signature keyed on the hash function only (the field / k / count are in the detail): a defect of the
    # generic expander shows up under a handful of signatures instead of one per configuration
    check_u(out, ev, label, msg, dst, hname, p, m, k, count, u_rec, f"h2c/{hname}/hash_to_field/value")


def check_xof_h2f(out, ev):
    fd = ev["field"]
    p, m, k, count = int(fd["p"]), int(fd["m"]), int(ev["k"]), int(ev["count"])
    inp = bytes.fromhex(ev["input"])
    label = f"{ev['xof']}:{ev['fname']}:k={k}"
    out.ev(f"xof|{label}|{count}|{ev['input']}")
    out.op("py: hash_to_field (XofReader)")
    out.configs.add("py-xof-h2f:" + label)
    L = R.L_of(p, k)
    stream = R.XOFS[ev["xof"]](inp).digest(count * m * L)
    ref = R.fields_from_bytes(stream, count, p, m, L)
    u_rec = norm_u(ev["u"], m)
    if ref != u_rec:
        bad = next(i for i in range(count) if i >= len(u_rec) or ref[i] != u_rec[i])
        out.violation(f"h2c/{ev['xof']}/xof_hash_to_field/value",
                      {"config": label, "input": ev["input"], "count": count, "first_bad_index": bad,
                       "expected": [str(c) for c in ref[bad]]}, ev.get("item", ""))


def map_facts_classes(out, S, u, facts):
    F = S.F
    out.cls("py: u = 0", F.is_zero(u))
    if S.map == "ell2":
        out.cls("py: exceptional Elligator2 denominator", facts["exceptional"])
    else:
        out.cls("py: exceptional SWU denominator", facts["exceptional"])
        out.cls("py: exceptional SWU denominator with u != 0", facts["exceptional"] and not F.is_zero(u))
        out.cls("py: sign flip applied (sgn0(sqrt) != sgn0(u), y negated)", facts.get("flipped", False))
        out.cls("py: no sign flip needed", not facts.get("flipped", False))
    out.cls("py: gx1 square", facts["gx1_square"])
    out.cls("py: gx1 non-square", not facts["gx1_square"])
    out.cls("py: gx1 = 0", facts["gx1_zero"])
    out.cls("py: isogeny kernel point (image is the identity)", facts.get("iso_kernel", False))
    if F.m == 2:
        out.cls("py: Fp2 input with c0 = 0, c1 != 0", u[0] == 0 and u[1] != 0)


def check_map_value(out, ev, S, which, curve_is_iso, u, Qrec, count_classes=True):
    """compare one recorded map output with the reference; which = 'swu' | 'wb' | 'ell2'"""
    F = S.F
    if which == "swu":
        ref, facts = S.swu(u)
        E = S.Eiso if curve_is_iso or S.map == "swu" else S.E
    else:
        ref, facts = S.map_to_curve(u)
        E = S.E
    if count_classes:
        map_facts_classes(out, S, u, facts)
    if ref is not None and not E.on_curve(ref):
        out.harness_errors.append(f"reference {which} output off the curve for suite {S.name}, u={F.coords(u)}")
        return
    if Qrec == "missing":
        return
    if E.eq(ref, Qrec) if not (ref is None or Qrec is None) else (ref is None and Qrec is None):
        return
    detail = {"suite": S.name, "map": which, "u": [str(c) for c in F.coords(u)], "expected": pstr(F, ref), "got": pstr(F, Qrec),
              "facts": {k: v for k, v in facts.items() if isinstance(v, bool)}}
    got_00 = Qrec is not None and F.is_zero(Qrec[0]) and F.is_zero(Qrec[1])
    if which == "wb" and facts.get("iso_kernel") and (got_00 or not facts.get("gx1_zero")):
        # diagnosed defect, suite-independent signature (the site is the generic IsogenyMap::apply)
        detail["diagnosis"] = ("the SWU output lies in the kernel of the isogeny (a denominator of the rational map is zero): "
                               "RFC 9380 6.6.3 requires the identity point")
        out.violation("h2c/wb/iso_map/kernel-point-not-identity", detail, ev.get("item", ""))
    elif facts.get("gx1_zero") and which in ("swu", "wb"):
        # diagnosed defect, suite-independent signature (the site is the generic SWUMap::map_to_curve)
        detail["diagnosis"] = ("g(x1) = 0: RFC 9380 is_square(0) is true, so step 7 selects x = x1, y = 0; the implementation "
                               "selected x2 = Z u^2 x1" + (" (and the isogeny was applied to that point)" if which == "wb" else ""))
        out.violation("h2c/swu/map_to_curve/gx1-zero-branch", detail, ev.get("item", ""))
    else:
        out.violation(f"h2c/{S.name}/{which}/map_to_curve/value", detail, ev.get("item", ""))


def check_map(out, ev):
    S = suite(ev["suite"])
    F = S.F
    u = F.el(ev["u"])
    which = ev["map"]
    out.ev(f"map|{S.name}|{which}|{ev.get('curve')}|{ev['u']}")
    out.op(f"py: map_to_curve ({which})")
    out.configs.add("py-map:" + S.name)
    out.cls(f"py: suite seen: {S.name}")
    check_map_value(out, ev, S, which, ev.get("curve") == "iso", u, S.pt(ev["Q"]))


def check_hash(out, ev, full):
    S = suite(ev["suite"])
    F, E = S.F, S.E
    hname = ev["hash"]
    msg, dst = bytes.fromhex(ev["msg"]), bytes.fromhex(ev["dst"])
    out.ev(f"hash|{S.name}|{hname}|{ev['msg']}|{ev['dst']}")
    out.op("py: hash_to_curve")
    out.configs.add(f"py-hash:{S.name}/{hname}")
    out.cls(f"py: suite seen: {S.name}")
    msg_classes(out, msg, dst, hname)
    out.cls("py: ell > 1", 2 * S.m * R.L_of(S.p, S.k) > R.HASHES[hname][1])
    item = ev.get("item", "")
    # stage 1: u
    u_rec = [tuple(int(c) for c in x) for x in ev["u"]]
    check_u(out, ev, f"{S.name}:{hname}", msg, dst, hname, S.p, S.m, S.k, 2, u_rec, f"h2c/{S.name}/hash_to_field/value")
    us = [F.el(x) for x in ev["u"]]
    # stage 2: Q_i from the recorded u_i
    Qs = [S.pt(ev.get("Q0")), S.pt(ev.get("Q1"))]
    for i in range(2):
        check_map_value(out, ev, S, S.map, False, us[i], Qs[i])
    # stage 3: P from the recorded Q_i
    Prec = S.pt(ev.get("P"))
    if "missing" in Qs or Prec == "missing":
        return
    if not all(E.on_curve(Q) for Q in Qs):
        out.cls("py: final stage skipped (a recorded Q_i is off the curve, reported by the map stage)")
        return
    if not full:
        out.cls("py: final-stage comparison skipped by sampling")
        return
    try:
        Pref = E.add_then_mul(Qs[0], Qs[1], S.h_eff)
    except R.IncompleteAddition:
        out.cls("py: final stage skipped (h_eff * (Q0 + Q1) has no affine Edwards coordinates)")
        return
    out.cls("py: final-stage comparison done (P = h_eff * (Q0 + Q1))")
    out.cls("py: Q0 = Q1 (doubling in the final addition)", E.eq(Qs[0], Qs[1]) if None not in Qs else Qs[0] is Qs[1])
    if not E.eq(Pref, Prec):
        detail = {"suite": S.name, "hash": hname, "msg": ev["msg"], "dst": ev["dst"], "Q0": pstr(F, Qs[0]), "Q1": pstr(F, Qs[1]),
                  "h_eff": hex(S.h_eff), "expected": pstr(F, Pref), "got": pstr(F, Prec)}
        try:
            if E.eq(E.add(Qs[0], Qs[1]), Prec):
                detail["diagnosis"] = "P equals Q0 + Q1: the cofactor was not cleared"
        except R.IncompleteAddition:
            pass
        out.violation(f"h2c/{S.name}/hash/value", detail, item)
        # independent subgroup / curve predicates on the recorded point
        if not E.on_curve(Prec):
            out.violation(f"h2c/{S.name}/hash/off-curve", detail, item)
        else:
            try:
                in_subgroup = E.eq(E.mul(S.r, Prec), E.identity)
            except R.IncompleteAddition:
                in_subgroup = False   # r * P is a torsion point without affine Edwards coordinates: not the identity
            if not in_subgroup:
                out.violation(f"h2c/{S.name}/hash/not-in-subgroup", detail, item)
    else:
        out.sample(f"hash/{S.name}", {"kind": "py hash_to_curve agreed", "suite": S.name, "hash": hname, "msg": ev["msg"][:64],
                                       "dst_len": len(dst), "P": pstr(F, Prec)})
        # r * P = identity, checked on the reference value for a sample (it equals the recorded value here)
        if int.from_bytes(hashlib.sha1(ev["msg"].encode()).digest()[:2], "big") % 8 == 0:
            try:
                ok = E.eq(E.mul(S.r, Pref), E.identity)
                out.cls("py: r * P = identity verified in Python")
                if not ok:
                    out.violation(f"h2c/{S.name}/hash/not-in-subgroup", {"suite": S.name, "msg": ev["msg"], "dst": ev["dst"],
                                  "P": pstr(F, Prec), "note": "also the reference value: h_eff or r exported by the monitor is wrong"}, item)
            except R.IncompleteAddition:
                pass


VECTOR_DIRS = ["/repo/test-curves/src/testdata", "/repo/curves/bls12_381/src/curves/tests", "/repo/curves/bls12_377/src/curves/tests"]


def check_published_vectors(out, prm):
    """the reference, fed with the constants exported from the repository, must reproduce the published
    hash-to-curve vectors (RFC 9380 J.9.1 / J.10.1 for BLS12-381; the repository's sage-generated files for BLS12-377)"""
    for name, p in prm.items():
        rfc = p.get("rfc_suite", "")
        if not rfc:
            continue
        fn = rfc.replace(":", "-") + ".json"
        path = next((os.path.join(d, fn) for d in VECTOR_DIRS if os.path.exists(os.path.join(d, fn))), None)
        if path is None:
            continue
        data = json.load(open(path))
        if data.get("hash") != "sha256" or data.get("ciphersuite") != rfc:
            continue
        S = suite(name)
        F = S.F
        dst = data["dst"].encode()
        hx = lambda s: F.el([int(c, 16) for c in s.split(",")])
        for v in data["vectors"]:
            msg = v["msg"].encode()
            out.ev(f"vector|{name}|{v['msg']}")
            out.op("py: published vector")
            u = S.hash_to_field(msg, dst, "SHA-256")
            Q0, _ = S.map_to_curve(u[0])
            Q1, _ = S.map_to_curve(u[1])
            P = S.clear_cofactor(S.E.add(Q0, Q1))
            want_u = [hx(x) for x in v["u"]]
            want = {k: (hx(v[k]["x"]), hx(v[k]["y"])) for k in ("Q0", "Q1", "P")}
            bad = []
            if not all(F.eq(a, b) for a, b in zip(u, want_u)):
                bad.append("u")
            for k, got in (("Q0", Q0), ("Q1", Q1), ("P", P)):
                if got is None or not S.E.eq(got, want[k]):
                    bad.append(k)
            if bad:
                out.violation(f"h2c/{name}/published-vector/value",
                              {"suite": name, "file": path, "msg": v["msg"], "stages_differing": bad,
                               "note": "computed by the Python reference from the constants exported by the monitor (A', B', Z, isogeny "
                                       "coefficients, cofactor, x): a mismatch means those constants differ from the suite definition",
                               "expected_P": v["P"], "got_P": pstr(F, P)}, "published-vectors")
            else:
                out.cls("py: published vector reproduced by the reference from the exported constants")


def work(chunk):
    out = Out()
    for line, full in chunk:
        try:
            ev = json.loads(line)
            k = ev["kind"]
            if k == "h2f":
                check_h2f(out, ev)
            elif k == "xof_h2f":
                check_xof_h2f(out, ev)
            elif k == "map":
                check_map(out, ev)
            elif k == "hash":
                check_hash(out, ev, full)
        except Exception as e:  # a crash of the checker is a harness error, never a violation
            import traceback
            out.harness_errors.append(f"checker exception {type(e).__name__}: {e} @ {traceback.format_exc().splitlines()[-3].strip()} on {line[:160]}")
    return out


def init(prm):
    global SUITE_PRM
    SUITE_PRM = prm


def cost(line):
    if '"kind":"hash"' in line:
        return 40 if ".g2" in line[:120] else 8
    if '"kind":"map"' in line:
        return 4 if ".g2" in line[:120] else 1
    return 1 + len(line) // 20000


def main():
    a = sys.argv[1:]
    report = a[0]
    tier = a[a.index("--tier") + 1] if "--tier" in a else "quick"
    jobs = int(a[a.index("--jobs") + 1]) if "--jobs" in a else int(os.environ.get("VERIF_JOBS") or os.cpu_count() or 4)
    max_full = int(a[a.index("--max-full") + 1]) if "--max-full" in a else (10 ** 9)
    t0 = time.time()
    rep = json.load(open(report))
    ev_path = a[a.index("--events") + 1] if "--events" in a else rep.get("event_log") or report + ".events.jsonl"
    total = Out()
    notes = []
    prm = {}
    lines = []
    if not os.path.exists(ev_path):
        total.harness_errors.append(f"event log {ev_path} missing")
    else:
        with open(ev_path) as f:
            for line in f:
                if '"kind":"suite"' in line:
                    p = json.loads(line)
                    prm[p["suite"]] = p
                elif line.strip():
                    lines.append(line)
    # the reference validates itself on published vectors first
    import glob
    fails = R.selftest(glob.glob("/repo/ff/src/fields/field_hashers/expander/testdata/*.json"))
    for f_ in fails:
        total.harness_errors.append("reference self-test failed: " + f_)
    # suites construct (parameter sanity: beta non-square, h_eff coprime to r, ...)
    init(prm)
    for name in prm:
        try:
            suite(name)
        except Exception as e:
            total.harness_errors.append(f"suite {name}: parameters rejected by the reference: {type(e).__name__} {e}")
    try:
        check_published_vectors(total, prm)
    except Exception as e:
        total.harness_errors.append(f"published-vector check crashed: {type(e).__name__} {e}")
    # sampling of the expensive final stage (all events unless --max-full)
    nfull = 0
    tagged = []
    for ln in lines:
        full = True
        if '"kind":"hash"' in ln:
            nfull += 1
            full = nfull <= max_full
        tagged.append((ln, full))
    # balanced chunks
    nchunks = max(1, jobs * 6)
    order = sorted(range(len(tagged)), key=lambda i: -cost(tagged[i][0]))
    chunks = [[] for _ in range(nchunks)]
    loads = [0] * nchunks
    import heapq
    heap = [(0, i) for i in range(nchunks)]
    for i in order:
        ld, c = heapq.heappop(heap)
        chunks[c].append(tagged[i])
        heapq.heappush(heap, (ld + cost(tagged[i][0]), c))
    chunks = [c for c in chunks if c]
    if chunks:
        with mp.Pool(min(jobs, len(chunks)), initializer=init, initargs=(prm,)) as pool:
            for o in pool.imap_unordered(work, chunks):
                total.merge(o)
    for c in REQUIRED:
        total.classes.setdefault(c, 0)
    for name in prm:
        total.classes.setdefault(f"py: suite seen: {name}", 0)
    required = REQUIRED + [f"py: suite seen: {name}" for name in prm]
    missing = [c for c in required if total.classes.get(c, 0) == 0]
    notes.append(f"{len(lines)} events from {ev_path}; reference self-test on RFC 9380 K.1/K.3 vectors: {'ok' if not fails else 'FAILED'}")
    post = {
        "property": rep.get("property", "C13"), "monitor": "pyref/check_h2c.py", "tier": tier, "seed": rep.get("seed", 0),
        "evaluations": total.evaluations, "distinct_nontrivial": len(total.digests), "rule": RULE,
        "classes": dict(sorted(total.classes.items())), "required_missing": missing, "ops": total.ops,
        "configs": sorted(total.configs), "samples": list(total.samples.values()), "exhaustive_subspaces": [],
        "notes": notes, "violations": list(total.violations.values()), "harness_errors": total.harness_errors[:40],
        "wall_s": round(time.time() - t0, 2),
    }
    # large logs of clean runs are not kept (the run is reproducible from tier + seed); anything with a finding is
    if (not total.violations and not total.harness_errors and not missing and "--keep-events" not in a
            and os.path.exists(ev_path) and os.path.getsize(ev_path) > (64 << 20)):
        post["notes"].append(f"event log ({os.path.getsize(ev_path) >> 20} MiB) removed after a clean check; pass --keep-events to keep it")
        os.remove(ev_path)
    json.dump(post, open(report + ".post.json", "w"), indent=1)
    print(f"check_h2c: {total.evaluations} events, {len(total.violations)} violation signature(s), "
          f"{len(total.harness_errors)} harness error(s), missing classes {missing}, {post['wall_s']} s")
    for v in total.violations.values():
        print(f"  {v['signature']} x{v['count']}")
    return 1 if total.violations else 0


if __name__ == "__main__":
    sys.exit(main())
