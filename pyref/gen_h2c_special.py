#!/usr/bin/env python3
"""Crafts exceptional inputs for the C13 monitor (run by hand; output committed as
/verif/harness/mon_h2c/special_u.json and validated again at run time by the monitor and by check_h2c.py).

usage: python3 gen_h2c_special.py <events.jsonl written by mon_h2c> > special_u.json

For every short-Weierstrass suite it finds
  * the F_q-rational roots of g'(x) = x^3 + A'x + B'   (abscissae of rational 2-torsion points: g(x1) = 0),
  * the F_q-rational roots rho of the isogeny's x- and y-denominators (kernel abscissae),
and inverts the simplified SWU map (a quadratic in w = Z u^2, then a square root) to obtain every u whose
SWU output has such an abscissa. Root finding: gcd(X^q - X, f) then Cantor-Zassenhaus splitting.
"""
import json
import random
import sys
import os

sys.path.insert(0, os.path.dirname(os.path.abspath(__file__)))
import rfc9380 as R  # noqa: E402

rng = random.Random(9380)


# ---- polynomials over F: lists of coefficients, low degree first, no trailing zeros
def ptrim(F, a):
    while a and F.is_zero(a[-1]):
        a = a[:-1]
    return a


def padd(F, a, b):
    n = max(len(a), len(b))
    a = a + [F.zero] * (n - len(a))
    b = b + [F.zero] * (n - len(b))
    return ptrim(F, [F.add(x, y) for x, y in zip(a, b)])


def psub(F, a, b):
    return padd(F, a, [F.neg(x) for x in b])


def pmul(F, a, b):
    if not a or not b:
        return []
    out = [F.zero] * (len(a) + len(b) - 1)
    for i, x in enumerate(a):
        if F.is_zero(x):
            continue
        for j, y in enumerate(b):
            out[i + j] = F.add(out[i + j], F.mul(x, y))
    return ptrim(F, out)


def pdivmod(F, a, b):
    a = list(a)
    q = [F.zero] * max(0, len(a) - len(b) + 1)
    inv = F.inv(b[-1])
    while len(a) >= len(b) and a:
        c = F.mul(a[-1], inv)
        d = len(a) - len(b)
        q[d] = c
        for i, y in enumerate(b):
            a[i + d] = F.sub(a[i + d], F.mul(c, y))
        a = ptrim(F, a)
    return ptrim(F, q), a


def pmod(F, a, b):
    return pdivmod(F, a, b)[1]


def pgcd(F, a, b):
    while b:
        a, b = b, pmod(F, a, b)
    if a:
        inv = F.inv(a[-1])
        a = [F.mul(c, inv) for c in a]
    return a


def ppowmod(F, base, e, f):
    result = [F.one]
    base = pmod(F, base, f)
    while e:
        if e & 1:
            result = pmod(F, pmul(F, result, base), f)
        base = pmod(F, pmul(F, base, base), f)
        e >>= 1
    return result


def roots(F, f):
    """all roots of f in F (F has q = F.q elements, q odd)"""
    f = ptrim(F, list(f))
    if len(f) <= 1:
        return []
    X = [F.zero, F.one]
    out = []
    if F.is_zero(f[0]):
        out.append(F.zero)
        while F.is_zero(f[0]):
            f = f[1:]
        if len(f) <= 1:
            return out
    g = pgcd(F, psub(F, ppowmod(F, X, F.q, f), X), f)   # product of the distinct linear factors

    def split(h):
        if len(h) <= 1:
            return
        if len(h) == 2:
            out.append(F.neg(F.mul(h[0], F.inv(h[1]))))
            return
        while True:
            delta = F.rand(rng)
            t = ppowmod(F, [delta, F.one], (F.q - 1) // 2, h)
            d = pgcd(F, psub(F, t, [F.one]), h)
            if 1 < len(d) < len(h):
                split(d)
                split(pdivmod(F, h, d)[0])
                return

    split(g)
    return out


def sqrt_all(F, a):
    r = F.sqrt(a)
    if r is None:
        return []
    return [r] if F.is_zero(r) else [r, F.neg(r)]


def solve_quadratic(F, a, b, c):
    """roots of a w^2 + b w + c"""
    if F.is_zero(a):
        return [] if F.is_zero(b) else [F.neg(F.mul(c, F.inv(b)))]
    disc = F.sub(F.sqr(b), F.muli(F.mul(a, c), 4))
    inv2a = F.inv(F.muli(a, 2))
    return [F.mul(F.sub(s, b), inv2a) for s in sqrt_all(F, disc)]


def invert_swu(S, rho):
    """all u with SWU_x(u) == rho under the RFC definition, plus all u with x1(u) == rho or x2(u) == rho"""
    F, E, Z = S.F, S.Eiso, S.Z
    A, B = E.A, E.B
    mBA = F.mul(F.neg(B), F.inv(A))
    ws = []
    # x1 = (-B/A)(1 + 1/(w^2 + w)) = rho  ->  (w^2 + w)(rho/(-B/A) - 1) = 1
    c = F.sub(F.mul(rho, F.inv(mBA)), F.one)
    if not F.is_zero(c):
        ws += solve_quadratic(F, c, c, F.neg(F.one))
    # exceptional x1 = B/(Z A): w^2 + w = 0
    if F.eq(rho, F.mul(B, F.inv(F.mul(Z, A)))):
        ws += [F.zero, F.neg(F.one)]
    # x2 = w x1 = (-B/A)(w^2 + w + 1)/(w + 1) = rho
    ws += solve_quadratic(F, mBA, F.sub(mBA, rho), F.sub(mBA, rho))
    us = []
    for w in ws:
        for u in sqrt_all(F, F.mul(w, F.inv(Z))):
            if not any(F.eq(u, v) for v in us):
                us.append(u)
    return us


def main():
    prm = {}
    for line in open(sys.argv[1]):
        if '"kind":"suite"' in line:
            p = json.loads(line)
            prm[p["suite"]] = p
    out = {}
    report = {}
    for name, p in prm.items():
        if p["model"] != "sw":
            continue
        S = R.Suite(p)
        F, E = S.F, S.Eiso
        entries = []
        info = {}
        g = [E.B, E.A, F.zero, F.one]
        two_torsion = roots(F, g)
        info["rational roots of g'(x)"] = len(two_torsion)
        targets = [("gx1-zero", r) for r in two_torsion]
        if S.map == "wb":
            xd = roots(F, S.iso["x_den"])
            yd = roots(F, S.iso["y_den"])
            info["rational roots of the x-denominator"] = len(xd)
            info["rational roots of the y-denominator"] = len(yd)
            ker = []
            for r in xd + yd:
                if not any(F.eq(r, k) for k in ker):
                    ker.append(r)
            gk = [F.add(F.add(F.mul(F.sqr(r), r), F.mul(E.A, r)), E.B) for r in ker]
            info["kernel abscissae with g'(rho) square (rational kernel points)"] = sum(1 for v in gk if F.is_square(v))
            targets += [("iso-kernel", r) for r in ker]
        reach = {"gx1-zero": 0, "iso-kernel": 0}
        for cls, rho in targets:
            for u in invert_swu(S, rho):
                Q, facts = S.swu(u)
                hit_x1 = F.eq(facts["x1"], rho)
                hit_x2 = F.eq(facts["x2"], rho)
                hit_out = F.eq(Q[0], rho)
                if not (hit_x1 or hit_x2):
                    continue
                c = cls
                if cls == "iso-kernel" and not hit_out:
                    c = "iso-kernel-abscissa-on-unused-branch"
                else:
                    reach[cls] += 1
                entries.append({"class": c, "u": [str(x) for x in F.coords(u)], "rho": [str(x) for x in F.coords(rho)],
                                "rfc_output_x_is_rho": hit_out, "x1_is_rho": hit_x1, "x2_is_rho": hit_x2})
        info["crafted u reaching gx1 = 0"] = reach["gx1-zero"]
        info["crafted u whose RFC SWU output is a kernel point"] = reach["iso-kernel"]
        out[name] = entries
        report[name] = info
    out["_info"] = report
    json.dump(out, sys.stdout, indent=1)
    sys.stdout.write("\n")
    json.dump(report, sys.stderr, indent=1)
    sys.stderr.write("\n")


if __name__ == "__main__":
    main()
