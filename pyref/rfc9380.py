#!/usr/bin/env python3
"""Independent reference implementation of RFC 9380 (Hashing to Elliptic Curves), Python ints + hashlib only.

Written from the RFC text; shares no code with /repo. Used by check_h2c.py (property C13).

  section 5.3.1  expand_message_xmd (+ 5.3.3 oversize DST)      expand_message_xmd()
  section 5.3.2  expand_message_xof (SHAKE)                       expand_message_xof()
  section 5.2    hash_to_field                                    hash_to_field()
  section 4.1    sgn0, is_square, sqrt, inv0                      Fp / Fp2 classes
  section 6.6.2  simplified SWU (straight-line version)           map_to_curve_simple_swu()
  section 6.6.3  isogeny map (coefficients are inputs)            iso_map()
  section 6.7.1  Elligator 2  + appendix D.1 rational map         map_to_curve_elligator2(), mont_to_te()
  section 3      hash_to_curve = clear_cofactor(Q0 + Q1)          Suite.hash_to_curve()

Points: short Weierstrass affine (x, y) or None for the identity; twisted Edwards affine (v, w), identity (0, 1).
Field elements: int for F_p, tuple (c0, c1) for F_p[i]/(i^2 - beta).
"""
import hashlib


class Abort(Exception):
    """expand_message aborts (ell > 255, len_in_bytes > 65535)"""


# name -> (constructor, b_in_bytes (output), s_in_bytes (input block size))   [FIPS 180-4, FIPS 202, RFC 7693]
HASHES = {
    "SHA-256": (hashlib.sha256, 32, 64),
    "SHA-384": (hashlib.sha384, 48, 128),
    "SHA-512": (hashlib.sha512, 64, 128),
    "SHA3-256": (hashlib.sha3_256, 32, 136),
    "SHA3-512": (hashlib.sha3_512, 64, 72),
    "BLAKE2b-512": (lambda d=b"": hashlib.blake2b(d, digest_size=64), 64, 128),
    "BLAKE2s-256": (lambda d=b"": hashlib.blake2s(d, digest_size=32), 32, 64),
}
XOFS = {"SHAKE128": hashlib.shake_128, "SHAKE256": hashlib.shake_256}


def i2osp(v, n):
    if v < 0 or v >= 256 ** n:
        raise Abort("I2OSP: integer too large")
    return v.to_bytes(n, "big")


def os2ip(b):
    return int.from_bytes(b, "big")


def expand_message_xmd(msg, dst, len_in_bytes, hname, z_pad_len=None):
    """RFC 9380 5.3.1. `z_pad_len` overrides s_in_bytes (only used to diagnose a wrong Z_pad length)."""
    H, b_in_bytes, s_in_bytes = HASHES[hname]
    ell = -(-len_in_bytes // b_in_bytes)
    if ell > 255 or len_in_bytes > 65535:
        raise Abort("ell > 255 or len_in_bytes > 65535")
    if len(dst) > 255:  # 5.3.3
        dst = H(b"H2C-OVERSIZE-DST-" + dst).digest()
    dst_prime = dst + i2osp(len(dst), 1)
    z_pad = bytes(s_in_bytes if z_pad_len is None else z_pad_len)
    l_i_b_str = i2osp(len_in_bytes, 2)
    msg_prime = z_pad + msg + l_i_b_str + i2osp(0, 1) + dst_prime
    b_0 = H(msg_prime).digest()
    b_i = H(b_0 + i2osp(1, 1) + dst_prime).digest()
    out = [b_i]
    for i in range(2, ell + 1):
        b_i = H(bytes(x ^ y for x, y in zip(b_0, b_i)) + i2osp(i, 1) + dst_prime).digest()
        out.append(b_i)
    return b"".join(out)[:len_in_bytes]


def expand_message_xof(msg, dst, len_in_bytes, xname, k):
    """RFC 9380 5.3.2."""
    X = XOFS[xname]
    if len_in_bytes > 65535:
        raise Abort("len_in_bytes > 65535")
    if len(dst) > 255:
        dst = X(b"H2C-OVERSIZE-DST-" + dst).digest((2 * k + 7) // 8)
    dst_prime = dst + i2osp(len(dst), 1)
    return X(msg + i2osp(len_in_bytes, 2) + dst_prime).digest(len_in_bytes)


def L_of(p, k):
    """L = ceil((ceil(log2(p)) + k) / 8)"""
    return -(-((p - 1).bit_length() + k) // 8)


def hash_to_field(msg, count, dst, p, m, k, hname, z_pad_len=None):
    """RFC 9380 5.2 with expand_message_xmd; returns `count` tuples of m integers."""
    L = L_of(p, k)
    uniform = expand_message_xmd(msg, dst, count * m * L, hname, z_pad_len)
    return fields_from_bytes(uniform, count, p, m, L)


def fields_from_bytes(uniform, count, p, m, L):
    out = []
    for i in range(count):
        e = []
        for j in range(m):
            off = L * (j + i * m)
            e.append(os2ip(uniform[off:off + L]) % p)
        out.append(tuple(e))
    return out


# ------------------------------------------------------------------------------------------------
# fields

class Fp:
    m = 1

    def __init__(self, p):
        self.p = p
        self.q = p
        self.zero, self.one = 0, 1
        # Tonelli-Shanks constants
        s, t = 0, p - 1
        while t % 2 == 0:
            s, t = s + 1, t // 2
        self.ts_s, self.ts_t = s, t
        z = 2
        while pow(z, (p - 1) // 2, p) != p - 1:
            z += 1
        self.ts_c = pow(z, t, p)

    def el(self, cs):
        return int(cs[0]) % self.p

    def coords(self, a):
        return [a]

    def add(self, a, b): return (a + b) % self.p
    def sub(self, a, b): return (a - b) % self.p
    def neg(self, a): return (-a) % self.p
    def mul(self, a, b): return a * b % self.p
    def sqr(self, a): return a * a % self.p
    def muli(self, a, n): return a * n % self.p
    def is_zero(self, a): return a % self.p == 0
    def eq(self, a, b): return (a - b) % self.p == 0

    def inv(self, a):
        return pow(a, -1, self.p)

    def inv0(self, a):
        return 0 if a % self.p == 0 else pow(a, -1, self.p)

    def is_square(self, a):
        return pow(a, (self.p - 1) // 2, self.p) in (0, 1)

    def sqrt(self, a):
        """some square root of a (None if a is not a square)"""
        p = self.p
        a %= p
        if a == 0:
            return 0
        if pow(a, (p - 1) // 2, p) != 1:
            return None
        if p % 4 == 3:
            return pow(a, (p + 1) // 4, p)
        m, c, t, r = self.ts_s, self.ts_c, pow(a, self.ts_t, p), pow(a, (self.ts_t + 1) // 2, p)
        while t != 1:
            i, t2 = 0, t
            while t2 != 1:
                t2 = t2 * t2 % p
                i += 1
            b = pow(c, 1 << (m - i - 1), p)
            m, c = i, b * b % p
            t, r = t * c % p, r * b % p
        return r

    def sgn0(self, a):
        return a % 2

    def rand(self, rng):
        return rng.randrange(self.p)


class Fp2:
    """F_p[i] / (i^2 - beta)"""
    m = 2

    def __init__(self, p, beta):
        self.p, self.beta = p, beta % p
        self.q = p * p
        self.base = Fp(p)
        assert not self.base.is_square(self.beta), "beta must be a non-square"
        self.zero, self.one = (0, 0), (1, 0)

    def el(self, cs):
        return (int(cs[0]) % self.p, int(cs[1]) % self.p)

    def coords(self, a):
        return [a[0], a[1]]

    def add(self, a, b): return ((a[0] + b[0]) % self.p, (a[1] + b[1]) % self.p)
    def sub(self, a, b): return ((a[0] - b[0]) % self.p, (a[1] - b[1]) % self.p)
    def neg(self, a): return ((-a[0]) % self.p, (-a[1]) % self.p)

    def mul(self, a, b):
        p = self.p
        return ((a[0] * b[0] + self.beta * a[1] * b[1]) % p, (a[0] * b[1] + a[1] * b[0]) % p)

    def sqr(self, a):
        return self.mul(a, a)

    def muli(self, a, n): return (a[0] * n % self.p, a[1] * n % self.p)
    def is_zero(self, a): return a[0] % self.p == 0 and a[1] % self.p == 0
    def eq(self, a, b): return (a[0] - b[0]) % self.p == 0 and (a[1] - b[1]) % self.p == 0

    def norm(self, a):
        return (a[0] * a[0] - self.beta * a[1] * a[1]) % self.p

    def inv(self, a):
        n = pow(self.norm(a), -1, self.p)
        return (a[0] * n % self.p, (-a[1]) * n % self.p)

    def inv0(self, a):
        return (0, 0) if self.is_zero(a) else self.inv(a)

    def is_square(self, a):
        # a^((q-1)/2) in {0,1}  <=>  norm(a) is a square in F_p
        return self.base.is_square(self.norm(a))

    def sqrt(self, a):
        p, B = self.p, self.base
        a = (a[0] % p, a[1] % p)
        if a[1] == 0:
            r = B.sqrt(a[0])
            if r is not None:
                return (r, 0)
            r = B.sqrt(a[0] * pow(self.beta, -1, p) % p)
            return None if r is None else (0, r)
        alpha = B.sqrt(self.norm(a))
        if alpha is None:
            return None
        inv2 = pow(2, -1, p)
        delta = (a[0] + alpha) * inv2 % p
        x0 = B.sqrt(delta)
        if x0 is None:
            delta = (a[0] - alpha) * inv2 % p
            x0 = B.sqrt(delta)
            if x0 is None:
                return None
        x1 = a[1] * pow(2 * x0, -1, p) % p
        r = (x0, x1)
        assert self.eq(self.sqr(r), a)
        return r

    def sgn0(self, a):
        # RFC 9380 4.1, m = 2
        sign_0 = a[0] % 2
        zero_0 = a[0] == 0
        sign_1 = a[1] % 2
        return sign_0 | (zero_0 & sign_1)

    def rand(self, rng):
        return (rng.randrange(self.p), rng.randrange(self.p))


def make_field(desc):
    p, m = int(desc["p"]), int(desc["m"])
    if m == 1:
        return Fp(p)
    if m == 2:
        return Fp2(p, int(desc["beta"][0]))
    raise ValueError("arithmetic only implemented for m = 1, 2")


def poly_eval(F, coeffs, x):
    acc = F.zero
    for c in reversed(coeffs):
        acc = F.add(F.mul(acc, x), c)
    return acc


# ------------------------------------------------------------------------------------------------
# maps

def map_to_curve_simple_swu(F, A, B, Z, u):
    """RFC 9380 6.6.2 (straight-line form). Returns (x, y) and a dict of oracle-side facts."""
    u2 = F.sqr(u)
    zu2 = F.mul(Z, u2)
    ta = F.add(F.sqr(zu2), zu2)                      # Z^2 u^4 + Z u^2
    tv1 = F.inv0(ta)
    x1 = F.mul(F.mul(F.neg(B), F.inv(A)), F.add(F.one, tv1))
    if F.is_zero(tv1):
        x1 = F.mul(B, F.inv(F.mul(Z, A)))
    gx1 = F.add(F.add(F.mul(F.sqr(x1), x1), F.mul(A, x1)), B)
    x2 = F.mul(zu2, x1)
    gx2 = F.add(F.add(F.mul(F.sqr(x2), x2), F.mul(A, x2)), B)
    sq = F.is_square(gx1)
    if sq:
        x, y = x1, F.sqrt(gx1)
    else:
        x, y = x2, F.sqrt(gx2)
    assert y is not None, "SWU: neither gx1 nor gx2 square (Z is not a non-square?)"
    flipped = F.sgn0(u) != F.sgn0(y)
    if flipped:
        y = F.neg(y)
    return (x, y), {"exceptional": F.is_zero(ta), "gx1_square": sq, "flipped": flipped, "gx1_zero": F.is_zero(gx1), "x1": x1, "x2": x2}


def iso_map(F, iso, P):
    """RFC 9380 6.6.3 / appendix E: rational map given by four coefficient lists (low degree first)."""
    if P is None:
        return None
    x, y = P
    xd = poly_eval(F, iso["x_den"], x)
    yd = poly_eval(F, iso["y_den"], x)
    if F.is_zero(xd) or F.is_zero(yd):
        return None  # exceptional case: the point is in the kernel, the image is the identity
    xn = poly_eval(F, iso["x_num"], x)
    yn = poly_eval(F, iso["y_num"], x)
    return (F.mul(xn, F.inv(xd)), F.mul(y, F.mul(yn, F.inv(yd))))


def map_to_curve_elligator2(F, J, K, Z, u):
    """RFC 9380 6.7.1: point (s, t) on K t^2 = s^3 + J s^2 + s."""
    jk = F.mul(J, F.inv(K))
    den = F.add(F.one, F.mul(Z, F.sqr(u)))
    x1 = F.mul(F.neg(jk), F.inv0(den))
    exceptional = F.is_zero(x1)
    if exceptional:
        x1 = F.neg(jk)
    k2inv = F.inv(F.sqr(K))
    g = lambda x: F.add(F.add(F.mul(F.sqr(x), x), F.mul(jk, F.sqr(x))), F.mul(x, k2inv))
    gx1 = g(x1)
    x2 = F.sub(F.neg(x1), jk)
    gx2 = g(x2)
    sq = F.is_square(gx1)
    if sq:
        x, y = x1, F.sqrt(gx1)
        if F.sgn0(y) != 1:
            y = F.neg(y)
    else:
        x, y = x2, F.sqrt(gx2)
        assert y is not None
        if F.sgn0(y) != 0:
            y = F.neg(y)
    return (F.mul(x, K), F.mul(y, K)), {"exceptional": exceptional, "gx1_square": sq, "gx1_zero": F.is_zero(gx1)}


def mont_to_te(F, st):
    """RFC 9380 appendix D.1: (v, w) = (s / t, (s - 1) / (s + 1)); exceptional cases map to (0, 1)."""
    s, t = st
    if F.is_zero(t) or F.is_zero(F.add(s, F.one)):
        return (F.zero, F.one)
    return (F.mul(s, F.inv(t)), F.mul(F.sub(s, F.one), F.inv(F.add(s, F.one))))


# ------------------------------------------------------------------------------------------------
# textbook affine group laws

class SWCurve:
    def __init__(self, F, A, B):
        self.F, self.A, self.B = F, A, B

    def on_curve(self, P):
        if P is None:
            return True
        F = self.F
        x, y = P
        return F.eq(F.sqr(y), F.add(F.add(F.mul(F.sqr(x), x), F.mul(self.A, x)), self.B))

    def neg(self, P):
        return None if P is None else (P[0], self.F.neg(P[1]))

    def add(self, P, Q):
        F = self.F
        if P is None:
            return Q
        if Q is None:
            return P
        x1, y1 = P
        x2, y2 = Q
        if F.eq(x1, x2):
            if F.eq(y1, y2) and not F.is_zero(y1):
                lam = F.mul(F.add(F.muli(F.sqr(x1), 3), self.A), F.inv(F.muli(y1, 2)))
            else:
                return None
        else:
            lam = F.mul(F.sub(y2, y1), F.inv(F.sub(x2, x1)))
        x3 = F.sub(F.sub(F.sqr(lam), x1), x2)
        return (x3, F.sub(F.mul(lam, F.sub(x1, x3)), y1))

    def mul(self, k, P):
        if k < 0:
            return self.mul(-k, self.neg(P))
        R = None
        for bit in bin(k)[2:] if k else "":
            R = self.add(R, R)
            if bit == "1":
                R = self.add(R, P)
        return R

    identity = None

    def add_then_mul(self, P, Q, k):
        return self.mul(k, self.add(P, Q))

    def eq(self, P, Q):
        if P is None or Q is None:
            return P is None and Q is None
        return self.F.eq(P[0], Q[0]) and self.F.eq(P[1], Q[1])


class IncompleteAddition(Exception):
    """the result is a point of the curve that has no affine twisted Edwards coordinates"""


class TECurve:
    """a v^2 + w^2 = 1 + d v^2 w^2. Arithmetic is done on the birationally equivalent short Weierstrass curve
    (through the Montgomery form K t^2 = s^3 + J s^2 + s, J = 2(a+d)/(a-d), K = 4/(a-d), RFC 9380 appendix D.1),
    where the textbook chord-and-tangent law is complete; only a final result without affine Edwards coordinates
    (the 2- and 4-torsion points "at infinity" when a is a non-square or d a square) raises IncompleteAddition."""

    def __init__(self, F, a, d):
        self.F, self.a, self.d = F, a, d
        self.identity = (F.zero, F.one)
        amd_inv = F.inv(F.sub(a, d))
        self.J = F.mul(F.muli(F.add(a, d), 2), amd_inv)
        self.K = F.muli(amd_inv, 4)
        J, K = self.J, self.K
        inv3 = F.inv(F.muli(F.one, 3))
        self.J3 = F.mul(J, inv3)
        k2inv = F.inv(F.sqr(K))
        # y^2 = x^3 + A x + B with x = (s + J/3)/K, y = t/K
        A = F.mul(F.sub(F.muli(F.one, 3), F.sqr(J)), F.mul(inv3, k2inv))
        B = F.mul(F.sub(F.muli(F.mul(F.sqr(J), J), 2), F.muli(J, 9)), F.mul(F.inv(F.muli(F.one, 27)), F.mul(k2inv, F.inv(K))))
        self.W = SWCurve(F, A, B)

    def on_curve(self, P):
        F = self.F
        v2, w2 = F.sqr(P[0]), F.sqr(P[1])
        return F.eq(F.add(F.mul(self.a, v2), w2), F.add(F.one, F.mul(self.d, F.mul(v2, w2))))

    def to_w(self, P):
        F = self.F
        v, w = P
        if F.is_zero(v):
            if F.eq(w, F.one):
                return None
            s, t = F.zero, F.zero                       # (0, -1) <-> Montgomery (0, 0)
        else:
            s = F.mul(F.add(F.one, w), F.inv(F.sub(F.one, w)))
            t = F.mul(s, F.inv(v))
        Q = (F.mul(F.add(s, self.J3), F.inv(self.K)), F.mul(t, F.inv(self.K)))
        assert self.W.on_curve(Q), "Edwards -> Weierstrass conversion left the curve (input off the Edwards curve?)"
        return Q

    def from_w(self, Q):
        F = self.F
        if Q is None:
            return self.identity
        s = F.sub(F.mul(Q[0], self.K), self.J3)
        t = F.mul(Q[1], self.K)
        if F.is_zero(t):
            if F.is_zero(s):
                return (F.zero, F.neg(F.one))
            raise IncompleteAddition("2-torsion point without affine Edwards coordinates")
        if F.is_zero(F.add(s, F.one)):
            raise IncompleteAddition("4-torsion point without affine Edwards coordinates")
        return (F.mul(s, F.inv(t)), F.mul(F.sub(s, F.one), F.inv(F.add(s, F.one))))

    def neg(self, P):
        return (self.F.neg(P[0]), P[1])

    def add(self, P, Q):
        return self.from_w(self.W.add(self.to_w(P), self.to_w(Q)))

    def mul(self, k, P):
        return self.from_w(self.W.mul(k, self.to_w(P)))

    def add_then_mul(self, P, Q, k):
        """k * (P + Q) without leaving the Weierstrass model in between"""
        return self.from_w(self.W.mul(k, self.W.add(self.to_w(P), self.to_w(Q))))

    def eq(self, P, Q):
        return self.F.eq(P[0], Q[0]) and self.F.eq(P[1], Q[1])


# ------------------------------------------------------------------------------------------------
# suites (parameters are *inputs*, exported by the Rust monitor from the repository's constants)

def _limbs_hex_to_int(s):
    return int(s, 16)


class Suite:
    def __init__(self, prm):
        self.prm = prm
        self.name = prm["suite"]
        self.map = prm["map"]            # "wb" | "swu" | "ell2"
        self.F = F = make_field(prm["field"])
        self.p, self.m = F.p, F.m
        self.k = int(prm.get("k", 128))
        self.Z = F.el(prm["Z"])
        self.h = _limbs_hex_to_int(prm["cofactor"])
        self.r = int(prm["r"])
        x = int(prm.get("x", "0"))
        rule = prm["h_eff_rule"]
        if rule == "cofactor":
            self.h_eff = self.h
        elif rule == "bls12-g1":
            self.h_eff = abs(x - 1)          # 1 - x (x < 0) resp. x - 1 (x > 0), DESIGN appendix B
            assert (x - 1) ** 2 % 3 == 0 and self.h == (x - 1) ** 2 // 3, "G1 cofactor is not (x-1)^2/3"
        elif rule == "bls12-g2":
            self.h_eff = 3 * (x * x - 1) * self.h   # Budroni-Pintore, RFC 9380 8.8.2 / appendix G.3
        else:
            raise ValueError(rule)
        import math
        if rule != "bls12-g1":
            # (for BLS12 G1 the group E(F_p) is not cyclic and 1 - x already annihilates the cofactor part, Wahby-Boneh sec. 5)
            assert self.h_eff % self.h == 0, "h_eff is not a multiple of the cofactor"
        assert math.gcd(self.h_eff, self.r) == 1, "h_eff not coprime to r"
        if prm["model"] == "sw":
            self.E = SWCurve(F, F.el(prm["curve"]["A"]), F.el(prm["curve"]["B"]))
            if self.map == "wb":
                self.Eiso = SWCurve(F, F.el(prm["iso_curve"]["A"]), F.el(prm["iso_curve"]["B"]))
                self.iso = {k: [F.el(c) for c in v] for k, v in prm["iso_map"].items()}
            else:
                self.Eiso = self.E
                self.iso = None
        else:
            self.E = TECurve(F, F.el(prm["curve"]["a"]), F.el(prm["curve"]["d"]))
            self.J, self.K = F.el(prm["mont"]["J"]), F.el(prm["mont"]["K"])
            assert F.eq(self.J, self.E.J) and F.eq(self.K, self.E.K), \
                "exported Montgomery coefficients differ from J = 2(a+d)/(a-d), K = 4/(a-d)"

    # -- parsing helpers
    def pt(self, j):
        if j is None:
            return "missing"
        if j.get("inf"):
            return None
        return (self.F.el(j["x"]), self.F.el(j["y"]))

    def swu(self, u):
        E = self.Eiso
        return map_to_curve_simple_swu(self.F, E.A, E.B, self.Z, u)

    def map_to_curve(self, u):
        """the suite's map; returns (point on the target curve, facts)"""
        if self.map == "ell2":
            st, facts = map_to_curve_elligator2(self.F, self.J, self.K, self.Z, u)
            return mont_to_te(self.F, st), facts
        Q, facts = self.swu(u)
        if self.map == "wb":
            R = iso_map(self.F, self.iso, Q)
            facts["iso_kernel"] = R is None
            return R, facts
        return Q, facts

    def clear_cofactor(self, P):
        return self.E.mul(self.h_eff, P)

    def hash_to_field(self, msg, dst, hname, count=2, z_pad_len=None):
        us = hash_to_field(msg, count, dst, self.p, self.m, self.k, hname, z_pad_len)
        return [self.F.el(u) for u in us]

    def hash_to_curve(self, msg, dst, hname):
        u = self.hash_to_field(msg, dst, hname)
        Q0, _ = self.map_to_curve(u[0])
        Q1, _ = self.map_to_curve(u[1])
        return self.E.add_then_mul(Q0, Q1, self.h_eff)


# ------------------------------------------------------------------------------------------------
# self-test against published vectors (RFC 9380 appendix K.1 / J.9.1 / J.10.1), embedded so that the checker can
# validate *itself* before judging the implementation

_XMD_VECTORS = [
    # (hash, DST, msg, len_in_bytes, uniform_bytes)   RFC 9380 K.1 (SHA-256), K.3 (SHA-512)
    ("SHA-256", b"QUUX-V01-CS02-with-expander-SHA256-128", b"", 0x20,
     "68a985b87eb6b46952128911f2a4412bbc302a9d759667f87f7a21d803f07235"),
    ("SHA-256", b"QUUX-V01-CS02-with-expander-SHA256-128", b"abc", 0x20,
     "d8ccab23b5985ccea865c6c97b6e5b8350e794e603b4b97902f53a8a0d605615"),
    ("SHA-256", b"QUUX-V01-CS02-with-expander-SHA256-128", b"", 0x80,
     "af84c27ccfd45d41914fdff5df25293e221afc53d8ad2ac06d5e3e29485dadbee0d121587713a3e0dd4d5e69e93eb7cd4f5df4"
     "cd103e188cf60cb02edc3edf18eda8576c412b18ffb658e3dd6ec849469b979d444cf7b26911a08e63cf31f9dcc541708d3491"
     "184472c2c29bb749d4286b004ceb5ee6b9a7fa5b646c993f0ced"),
    ("SHA-512", b"QUUX-V01-CS02-with-expander-SHA512-256", b"", 0x20,
     "6b9a7312411d92f921c6f68ca0b6380730a1a4d982c507211a90964c394179ba"),
]


def selftest(vector_files=()):
    """returns a list of failure strings (empty = reference reproduces the published vectors)"""
    import json
    fails = []
    for h, dst, msg, n, want in _XMD_VECTORS:
        got = expand_message_xmd(msg, dst, n, h).hex()
        if got != want:
            fails.append(f"expand_message_xmd {h} {msg!r} {n}: {got} != {want}")
    for path in vector_files:
        try:
            data = json.load(open(path))
        except OSError:
            continue
        if data.get("name") in ("expand_message_xmd", "expand_message_xof"):
            for t in data["tests"]:
                n = int(t["len_in_bytes"], 16)
                if data["name"] == "expand_message_xmd":
                    hn = {"SHA256": "SHA-256", "SHA384": "SHA-384", "SHA512": "SHA-512"}[data["hash"]]
                    got = expand_message_xmd(t["msg"].encode(), data["DST"].encode(), n, hn).hex()
                else:
                    got = expand_message_xof(t["msg"].encode(), data["DST"].encode(), n, data["hash"], data["k"]).hex()
                if got != t["uniform_bytes"]:
                    fails.append(f"{path}: {t['msg'][:16]!r} len {n}")
    return fails


if __name__ == "__main__":
    import glob
    import sys
    files = glob.glob("/repo/ff/src/fields/field_hashers/expander/testdata/*.json")
    f = selftest(files)
    print("selftest:", "ok" if not f else f)
    sys.exit(1 if f else 0)
