#!/usr/bin/env python3
"""covreport.py <prop> <bin> — functions in the property's anchored files that no monitored execution entered."""
import json, os, subprocess, sys, glob, re, collections
TOOLS="/root/.rustup/toolchains/nightly-x86_64-unknown-linux-gnu/lib/rustlib/x86_64-unknown-linux-gnu/bin"
prop, b = sys.argv[1], sys.argv[2]
raws = glob.glob(f"/var/tmp/dv/prof/{prop}.{b}-*.profraw")
if not raws: sys.exit("no profiles")
pd=f"/var/tmp/dv/prof/{prop}.{b}.profdata"
subprocess.run([f"{TOOLS}/llvm-profdata","merge","-sparse","-o",pd]+raws,check=True)
anch=[]
for l in open("/verif/properties.jsonl"):
    j=json.loads(l)
    if j["id"]==prop: anch=j["anchors"]["files"]
extra=sys.argv[3:]
srcs=[f"/var/tmp/drepo/{a}" for a in anch+extra]
out=subprocess.run([f"{TOOLS}/llvm-cov","export","-instr-profile",pd,f"/var/tmp/dv/tcov/release/{b}","-skip-expansions"]+srcs,capture_output=True,text=True)
d=json.loads(out.stdout)
by=collections.defaultdict(lambda:[0,0,None])
for f in d["data"][0]["functions"]:
    fn=f["filenames"][0]
    if not any(fn.endswith(a) for a in anch+extra): continue
    r=f["regions"][0]
    key=(fn.replace("/var/tmp/drepo/",""), r[0])
    by[key][0]+=1
    by[key][1]+=f["count"]
    by[key][2]=f["name"]
unc=sorted(k for k,v in by.items() if v[1]==0)
print(f"== {prop} {b}: {len(by)} functions in anchored files, {len(unc)} never entered")
srccache={}
for fn,line in unc:
    if fn not in srccache: srccache[fn]=open("/var/tmp/drepo/"+fn).read().splitlines()
    src=srccache[fn]
    # find fn signature line at or above
    sig=src[line-1].strip()
    k=line-1
    while k>0 and "fn " not in src[k] : k-=1
    sig=src[k].strip() if "fn " in src[k] else sig
    # skip test code
    if "#[test]" in "\n".join(src[max(0,k-3):k+1]) or "mod test" in "\n".join(src[:k+1]).split("\n")[-1]: continue
    print(f"  {fn}:{line}  {sig[:140]}")
