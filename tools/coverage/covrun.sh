#!/bin/bash
T=/var/tmp/dv/tcov/release
cd /var/tmp/dv
mkdir -p prof cov
run() { # prop bin [only...]
  p=$1; b=$2; shift 2
  if [ $# -eq 0 ]; then
    LLVM_PROFILE_FILE=/var/tmp/dv/prof/$p.$b-%p-%m.profraw $T/$b --prop $p --tier quick --seed 0 --out /var/tmp/dv/cov/$p.$b.json > /dev/null 2>&1
    echo "$p $b full exit=$?"
  else
    for o in "$@"; do
      LLVM_PROFILE_FILE=/var/tmp/dv/prof/$p.$b-%p-%m.profraw $T/$b --prop $p --tier quick --seed 0 --only "$o" --out /var/tmp/dv/cov/$p.$b.json > /dev/null 2>&1
      echo "$p $b only=$o exit=$?"
    done
  fi
}
(run C01 mon_ff c01/grid/secp256k1 c01/grid/r4_m1 c01/grid/t97 c01/grid/p64m59 c01/grid/m127 "c01/bls12_381::Fq"
 run C02 mon_ff "c02/bls12_381::Fq2" "c02/bls12_381::Fq6" "c02/bls12_381::Fq12" "c02/mnt4_298::Fq4" "c02/bw6_761::Fq6" "c02/mnt6_298::Fq3" "c02/mnt6_298::Fq6" "c02/toy::Fp2<7,beta=-1>"
 run C11 mon_ff
 run C19 mon_ff "c19/BigInt<4>" "c19/bls12_381::Fq" "c19/bls12_381::Fq2" "c19/bls12_381::Fq6" "c19/bls12_381::Fq12" c19/grid/t97 "c19/mnt6_298::Fq3"
 run C20 mon_ff c20rt/grid/r4_m1 c20rt/grid/secp256k1 c20rt/grid/t97) &
(run C03 mon_ec "c03/bls12_381::g1" "c03/bls12_381::g2" c03/bandersnatch "c03/mnt6_298::g2" "c03/toy::sw_fp3_a0" "c03/toy::te_inc" "c03/toy::sw_a_h2" "c03/toy::te_c_h4"
 run C04 mon_ec "c04/bls12_381::g1" "c04/bls12_381::g2" c04/bandersnatch c04/glv "c04/toy::sw_a_h2" "c04/toy::te_c_h4" "c04/mnt6_298::g2"
 run C05 mon_ec
 run C12 mon_ec "c12/bls12_381::g1" "c12/bls12_381::g2" c12/bandersnatch "c12/bls12_377::g2" "c12/toy::sw_a_h2" "c12/toy::te_c_h4" "c12/toy::sw_a0_h4"
 run C11 mon_ec
 run C19 mon_ec "c19/bls12_381::g1" c19/bandersnatch c19/gt c19/poly c19/mvpoly "c19/toy::sw_a_h2" "c19/toy::te_c_h4") &
(run C06 mon_pair; run C07 mon_poly; run C17 mon_poly; run C08 mon_poly) &
(run C18 mon_ser; run C09 mon_ser; run C10 mon_ser; run C13 mon_h2c; run C16 mon_const; run C20 mon_const) &
wait
echo ALLDONE
