#!/bin/bash
T=/var/tmp/dv/tcov/release
cd /var/tmp/dv
run() { p=$1; b=$2; shift 2; for o in "$@"; do LLVM_PROFILE_FILE=/var/tmp/dv/prof/$p.$b-%p-%m.profraw $T/$b --prop $p --tier quick --seed 0 --only "$o" --out /var/tmp/dv/cov/$p.$b.json > /dev/null 2>&1; echo "$p $b only=$o exit=$?"; done; }
run C11 mon_ff "c11/bls12_381::Fq" "c11/bls12_381::Fq2" "c11/bls12_377::Fr" c11/grid/t97 c11/grid/m127 "c11/mnt6_298::Fq3" "c11/mnt6_298::Fq6" "c11/mnt4_298::Fq4" "c11/toy::Fp2<7,beta=-1>" "c11/toy::Fp3<7,beta=3>" "c11/bw6_761::Fq6"
run C05 mon_ec "c05/bls12_381::g1" "c05/ed25519" "c05/PairingOutput<mnt4_298>" c05/make_digits "c05/toy::sw_a_h2" "c05/toy::te_c_h4"
echo DONE2
