#!/bin/bash
T=/var/tmp/dv/tcov/release
cd /var/tmp/dv
for pf in "C07 /tmp/c07_items.txt" "C08 /tmp/c08_items.txt" "C17 /tmp/c17_items.txt"; do set -- $pf
  while read o; do LLVM_PROFILE_FILE=/var/tmp/dv/prof/$1.mon_poly-%p-%m.profraw $T/mon_poly --prop $1 --tier quick --seed 0 --only "$o" --out /var/tmp/dv/cov/$1.mon_poly.json > /dev/null 2>&1; echo "$1 $o exit=$?"; done < $2
done
echo DONE3
