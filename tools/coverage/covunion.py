#!/usr/bin/env python3
"""Union over all monitors: functions of the anchored files that no monitored execution entered."""
import json, subprocess, glob, collections, re, sys
TOOLS="/root/.rustup/toolchains/nightly-x86_64-unknown-linux-gnu/lib/rustlib/x86_64-unknown-linux-gnu/bin"
anch=set(); owner=collections.defaultdict(set)
for l in open("/verif/properties.jsonl"):
    j=json.loads(l)
    for f in j["anchors"]["files"]:
        anch.add(f); owner[f].add(j["id"])
bins=sorted({re.match(r".*/C\d+\.(\w+)-",r).group(1) for r in glob.glob("/var/tmp/dv/prof/C*.profraw")})
by=collections.defaultdict(lambda:[0,None,set()])
for b in bins:
    raws=glob.glob(f"/var/tmp/dv/prof/C*.{b}-*.profraw")
    pd=f"/var/tmp/dv/prof/all.{b}.profdata"
    subprocess.run([f"{TOOLS}/llvm-profdata","merge","-sparse","-o",pd]+raws,check=True)
    srcs=[f"/var/tmp/drepo/{a}" for a in sorted(anch)]
    out=subprocess.run([f"{TOOLS}/llvm-cov","export","-instr-profile",pd,f"/var/tmp/dv/tcov/release/{b}","-skip-expansions"]+srcs,capture_output=True,text=True)
    d=json.loads(out.stdout)
    for f in d["data"][0]["functions"]:
        fn=f["filenames"][0].replace("/var/tmp/drepo/","")
        if fn not in anch: continue
        key=(fn,f["regions"][0][0])
        by[key][0]+=f["count"]; by[key][1]=f["name"]; by[key][2].add(b)
unc=sorted(k for k,v in by.items() if v[0]==0)
print(f"bins: {bins}; {len(by)} functions (incl. closures) in {len(anch)} anchored files; {len(unc)} never entered")
cache={}
last=None
for fn,line in unc:
    if fn not in cache: cache[fn]=open("/var/tmp/drepo/"+fn).read().splitlines()
    src=cache[fn]; k=line-1
    while k>0 and not re.search(r"\bfn \w+",src[k]): k-=1
    # skip test modules
    head="\n".join(src[:k+1])
    if re.search(r"#\[cfg\(test\)\]\s*\n\s*mod \w+ \{",head) and head.rfind("#[cfg(test)]")>head.rfind("\n}\n"): continue
    sig=src[k].strip()
    if (fn,k)==last: continue
    last=(fn,k)
    print(f"  [{','.join(sorted(owner[fn]))}] {fn}:{k+1}  {sig[:130]}")
