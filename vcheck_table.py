"""Which monitor binaries decide which property (see DESIGN.md §4)."""

WATCHDOG_S = {"quick": 1500, "thorough": 4 * 3600}

BASE_ASSUME = [
    "oracle arithmetic is num-bigint (and Python integers in pyref/) - trusted",
    "verdict is 'held on the executions observed', not a proof",
]

PROPS = {
    "C01": {
        "runs": [{"bin": "mon_ff"}],
        "assumptions": BASE_ASSUME + ["field configurations use the minimal limb count for their modulus (DESIGN §7)"],
    },
    "C15": {
        "runs": [{"bin": "mon_ff"}],
        "assumptions": BASE_ASSUME,
    },
}
