"""Which monitor binaries decide which property (see DESIGN.md §4)."""

WATCHDOG_S = {"quick": 1500, "thorough": 4 * 3600}

BASE_ASSUME = [
    "oracle arithmetic is num-bigint (and Python integers in pyref/) - trusted",
    "verdict is 'held on the executions observed', not a proof",
]

PROPS = {
    "C01": {
        "runs": [{"bin": "mon_ff"}],
        "assumptions": BASE_ASSUME + ["field configurations use the minimal limb count for their modulus (DESIGN §7)"],
    },
    "C02": {
        "runs": [{"bin": "mon_ff"}],
        "assumptions": BASE_ASSUME + ["prime-field operations and conversions used to build/decode tower elements are checked by C01",
                                      "that each NONRESIDUE really is a non-residue is C16's obligation; the model reduces by X^k = NONRESIDUE as configured"],
    },
    "C03": {
        "runs": [{"bin": "mon_ec"}],
        "assumptions": BASE_ASSUME + ["toy curves: oracle is plain u64 arithmetic over F_p / F_p[u]/(u^2-beta), independent of the repository; shipped curves: textbook affine law over field operations checked by C01/C02",
                                      "twisted-Edwards curves whose law is not complete are exercised on the prime-order subgroup only (as the property states)"],
    },
    "C04": {
        "runs": [{"bin": "mon_ec"}],
        "assumptions": BASE_ASSUME + ["projective / field-scalar / wNAF / batch paths are exercised on points of the prime-order subgroup (CurveGroup contract; GLV overrides are only meaningful there); affine paths on every curve point",
                                      "wNAF windows 2..10; max_scalar_size >= the scalars' bit length (documented precondition); limb slices up to N+2 limbs",
                                      "reference k*P: MSB-first double-and-add with the textbook affine law (C03-checked)"],
    },
    "C05": {
        "runs": [{"bin": "mon_ec"}],
        "assumptions": BASE_ASSUME + ["raw big integers are below 2^MODULUS_BIT_SIZE; msm_chunks is called with equal lengths (documented preconditions)",
                                      "naive reference sum uses the textbook law (toy curves) or C03/C04-checked + and mul_bigint (shipped groups); PairingOutput reference uses the target field's generic pow (C02)",
                                      "uses the ark-ec `verif-hooks` feature to reach the private plain/signed bucket kernels and make_digits"],
    },
    "C06": {
        "runs": [{"bin": "mon_pair"}],
        "assumptions": BASE_ASSUME + [
            "points are elements of the prime-order groups G1/G2 (generator multiples, identity); multi-pairing lists have equal lengths (unequal lengths are a documented panic)",
            "group scalar multiplication (C04), group law (C03) and target-field mul/square/inverse/pow (C02) are checked by their own properties and are used to form operands and right-hand sides",
        ],
    },
    "C07": {
        "runs": [{"bin": "mon_poly"}],
        "assumptions": BASE_ASSUME + [
            "prime-field + - * inverse used by the Horner / product-formula oracles are checked by C01; group add/double used for group-valued coefficients by C03",
            "coefficient vectors are no longer than the domain; a panic of MixedRadixEvaluationDomain::new on a field without a declared small subgroup is not flagged (DESIGN §7)",
            "F::TWO_ADICITY / SMALL_SUBGROUP_* are taken as declared after checking them against the modulus (full consistency is C16's)",
            "filter polynomials are checked for a subgroup domain and all of its sub-cosets only"],
    },
    "C08": {
        "runs": [{"bin": "mon_poly"}],
        "assumptions": BASE_ASSUME + [
            "operands are canonical; sparse constructors receive distinct degrees and non-zero coefficients (any order)",
            "division by the zero polynomial, Evaluations over unequal domains and FFT multiplication on a field that is not smooth enough are documented panics and never generated",
            "domain construction and transforms used by evaluate_over_domain/interpolate are C07's; prime-field arithmetic is C01's"],
    },
    "C11": {
        "runs": [{"bin": "mon_ff"}, {"bin": "mon_ec"}],
        "assumptions": BASE_ASSUME + ["fields without a square-root algorithm (Fp6 3-over-2 without SQRT_PRECOMP, Fp12 above it) are excluded, as the property states",
                                      "curve-coordinate recovery helpers are monitored by mon_ec (toy curves exhaustively)"],
    },
    "C12": {
        "runs": [{"bin": "mon_ec"}],
        "assumptions": BASE_ASSUME + ["membership oracle r*P = O and clearing oracle [h_eff]*P use the textbook affine law (C03-checked); h_eff = COFACTOR except the documented BLS12 effective cofactors (G1: |1-x|, G2: 3(x^2-1)*h2), each checked coprime to r at run time",
                                      "on twisted-Edwards curves with an incomplete law (te_inc toy curve, bandersnatch) points for which the affine textbook law is undefined are skipped and counted"],
    },
    "C13": {
        "runs": [{"bin": "mon_h2c", "post": "pyref/check_h2c.py"}],
        "assumptions": BASE_ASSUME + [
            "pyref/rfc9380.py is trusted after reproducing, on every run, the RFC 9380 K.1/K.3 expand_message vectors and the 30 published hash-to-curve vectors from the exported constants",
            "curve/isogeny constants (A', B', Z, isogeny tables, cofactor, x, r) are inputs exported from the repository (pinned by those vectors and by C16)",
            "field arithmetic, sqrt and mul_bigint used by the in-process predicates are checked by C01/C11/C04",
        ],
    },
    "C19": {
        "runs": [{"bin": "mon_ff"}, {"bin": "mon_ec"}],
        "assumptions": BASE_ASSUME + ["mathematical identity is decided by the oracle models (integer value, flat tower coordinates, affine coordinates decoded by the oracle, canonical coefficient vectors)",
                                      "hashing uses std DefaultHasher with its fixed keys"],
    },
    "C17": {
        "runs": [{"bin": "mon_poly"}],
        "assumptions": BASE_ASSUME + [
            "sparse tables are given distinct indices; relabel windows do not overlap; points have exactly num_vars coordinates (>= for multivariate evaluate)",
            "the 0-variable zero representation is accepted wherever the expected table is identically zero (DESIGN §7)"],
    },
    "C14": {
        "runs": [{"bin": "mon_par", "args": ["--emit", "{logs}/C14.{tier}.digests.json"]},
                 {"bin": "mon_par", "variant": "par", "args": ["--compare", "{logs}/C14.{tier}.digests.json"]}],
        "assumptions": BASE_ASSUME + ["the serial build's outputs are the reference (their correctness is the subject of C01-C08, C17); outputs are compared through their canonical uncompressed serialization",
                                      "rayon's internal interleavings are perturbed (pool sizes, input/threshold alignments, background CPU hog) but cannot be enumerated or observed"],
    },
    "C15": {
        "runs": [{"bin": "mon_ff"}],
        "assumptions": BASE_ASSUME,
    },
    "C16": {
        "runs": [{"bin": "mon_const"}],
        "assumptions": BASE_ASSUME + [
            "primality is Miller-Rabin (64 prime bases); group orders of large curves are checked through r*G = 0, the Hasse interval and COFACTOR*r annihilating random curve points, not by point counting",
            "constants are read through the public traits; base-prime-field coordinates are decoded with into_bigint (C01), prime-field constants from raw Montgomery limbs by the oracle; the library's sqrt is used only to find random curve points whose membership the oracle re-checks",
            "conventions read from the code/doc comments (Frobenius exponent j(p^i-1)/k, GLV phi(x,y)=(beta x,y) with row lattice and det=+r, TE<->Montgomery incl. the bls12_377 rescaling, BW6 Housni-Guillevic parameterisation, MNT big-endian loop digits) are stated in mon_const/src/*.rs and in the evidence notes",
            "private constants (P_POWER_ENDOMORPHISM_* in bls12_381/bls12_377/bn254 g2) are out of reach of this property and exercised by C12",
        ],
    },
    "C20": {
        "runs": [{"probe": "lit_probe", "baseline": "decimal",
                  "classes": ["decimal", "leading_zeros", "negative", "hex_lower", "hex_upper", "octal_lower", "octal_upper", "binary_lower", "binary_upper", "bigint", "const_ctor", "derive_small_subgroup", "reject_bigint_negative", "reject_bigint_too_wide", "reject_montfp_too_wide", "reject_montfp_too_wide_negative"]},
                 {"bin": "mon_const"}, {"bin": "mon_ff"}],
        "assumptions": BASE_ASSUME + [
            "the const constructors Fp::new / Fp::from_sign_and_limbs (what MontFp! expands to) are const fn and therefore run the same code at run time as in constant evaluation; mon_ff drives them at run time over all 214 prime-field configurations with crafted and edge-biased integers (C20 run-time part)",
            "the literal grid (mon_const/src/literals_gen.rs) is generated once by mon_const/gen/gen_literals.py; expected values next to each literal are Python integers; only syntax accepted by ff-macros/src/utils.rs and values below 2^(64N) are generated (anything else is a documented compile error)",
            "decimal/hex literals and small octal/binary literals are const items; every octal/binary literal is also expanded in a run-time context (text->limbs still at compile time) so that a mis-read radix is a violation instead of a build failure",
            "shipped fields: derive products are recomputed from the decoded modulus and generator (attribute strings of /repo are not embedded)",
        ],
    },
    "C09": {
        "runs": [{"bin": "mon_ser"}, {"bin": "mon_ser", "variant": "rel", "tiers": ["thorough"]},
                 {"bin": "mon_ser", "variant": "miri", "tiers": ["thorough"], "args": ["--miri-slice", "1", "--jobs", "8"]}],
        "assumptions": BASE_ASSUME + [
            "expected bytes come from an oracle-side encoder of the documented format (serialize/src/flags.rs, ec */serialization_flags.rs, bls12_381 zcash layout); the repository's documented format is the specification",
            "elements are built/decoded from raw Montgomery limbs by the oracle; uniqueness is demanded of field encodings only (DESIGN §7)",
            "points on shipped curves are produced with the group law / harness double-and-add (C03/C04) and unchecked lifts (C11)"],
    },
    "C10": {
        "runs": [{"bin": "mon_ser"}, {"bin": "mon_ser", "variant": "rel", "tiers": ["thorough"]},
                 {"bin": "mon_ser", "variant": "miri", "tiers": ["thorough"], "args": ["--miri-slice", "1", "--jobs", "8"]}],
        "assumptions": BASE_ASSUME + [
            "an accepted point is re-checked with plain field operations (C01/C02) and r*P by a harness double-and-add over the group's own +/double (C03); toy curves: plain u64 enumeration",
            "infinity flag with a non-zero payload and redundant sign flags are not required to be rejected (point encodings need not be unique); incomplete twisted-Edwards laws: an exceptional case (Z = 0) classifies the point as outside the subgroup"],
    },
    "C18": {
        "runs": [{"bin": "mon_ser"}, {"bin": "mon_ser", "variant": "rel", "tiers": ["thorough"]},
                 {"bin": "mon_ser", "variant": "miri", "tiers": ["thorough"], "args": ["--miri-slice", "1", "--jobs", "8"]}],
        "assumptions": BASE_ASSUME + [
            "hostile length prefixes, bit flips and uniform bytes run in a re-executed child (RLIMIT_AS 4 GiB, 1 GiB request cap, 20 s watchdog); a dead child is the violation alloc-abort",
            "allocation bound: largest single request <= 64*len(input) + 1 MiB; sequences of zero-sized elements are excluded from hostile-prefix cases (DESIGN §7)"],
    },
}
