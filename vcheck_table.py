"""Which monitor binaries decide which property (see DESIGN.md §4)."""

WATCHDOG_S = {"quick": 1500, "thorough": 4 * 3600}

BASE_ASSUME = [
    "oracle arithmetic is num-bigint (and Python integers in pyref/) - trusted",
    "verdict is 'held on the executions observed', not a proof",
]

PROPS = {
    "C01": {
        "runs": [{"bin": "mon_ff"}],
        "assumptions": BASE_ASSUME + ["field configurations use the minimal limb count for their modulus (DESIGN §7)"],
    },
    "C02": {
        "runs": [{"bin": "mon_ff"}],
        "assumptions": BASE_ASSUME + ["prime-field operations and conversions used to build/decode tower elements are checked by C01",
                                      "that each NONRESIDUE really is a non-residue is C16's obligation; the model reduces by X^k = NONRESIDUE as configured"],
    },
    "C06": {
        "runs": [{"bin": "mon_pair"}],
        "assumptions": BASE_ASSUME + [
            "points are elements of the prime-order groups G1/G2 (generator multiples, identity); multi-pairing lists have equal lengths (unequal lengths are a documented panic)",
            "group scalar multiplication (C04), group law (C03) and target-field mul/square/inverse/pow (C02) are checked by their own properties and are used to form operands and right-hand sides",
        ],
    },
    "C11": {
        "runs": [{"bin": "mon_ff"}],
        "assumptions": BASE_ASSUME + ["fields without a square-root algorithm (Fp6 3-over-2 without SQRT_PRECOMP, Fp12 above it) are excluded, as the property states",
                                      "curve-coordinate recovery helpers are monitored by mon_ec (toy curves exhaustively)"],
    },
    "C15": {
        "runs": [{"bin": "mon_ff"}],
        "assumptions": BASE_ASSUME,
    },
}
